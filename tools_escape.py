#!/usr/bin/env python3
# Rewrites non-ASCII characters inside Go interpreted string literals as \uXXXX escapes
# (harness sources carry Bangla text as code points only, DESIGN §2.0).
import re, sys
for path in sys.argv[1:]:
    src = open(path, encoding='utf-8').read()
    out = []
    i = 0
    n = len(src)
    while i < n:
        c = src[i]
        if src.startswith('//', i):
            j = src.find('\n', i)
            j = n if j < 0 else j
            out.append(src[i:j]); i = j
        elif src.startswith('/*', i):
            j = src.find('*/', i) + 2
            out.append(src[i:j]); i = j
        elif c == '`':
            j = src.find('`', i + 1) + 1
            out.append(src[i:j]); i = j
        elif c == "'":
            j = i + 1
            while src[j] != "'" or src[j-1] == '\\':
                j += 1
            out.append(src[i:j+1]); i = j + 1
        elif c == '"':
            j = i + 1
            buf = ['"']
            while src[j] != '"':
                if src[j] == '\\':
                    buf.append(src[j:j+2]); j += 2; continue
                ch = src[j]
                if ord(ch) > 127:
                    buf.append('\\u%04x' % ord(ch) if ord(ch) < 0x10000 else '\\U%08x' % ord(ch))
                else:
                    buf.append(ch)
                j += 1
            buf.append('"')
            out.append(''.join(buf)); i = j + 1
        else:
            out.append(c); i += 1
    new = ''.join(out)
    if new != src:
        open(path, 'w', encoding='utf-8').write(new)
        print('escaped', path)
