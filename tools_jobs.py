#!/usr/bin/env python3
# Generates harness/jobs.json (which harness functions, with which bounds, decide which
# property in which tier) and MANIFEST.json. Run after changing bounds; both files are committed.
import json, itertools

def J(pkg, func, *args, **opts):
    d = {"pkg": pkg, "func": func}
    if args: d["args"] = list(args)
    if opts: d["opts"] = opts
    return d

I = "interpreter"
A_COMMON = [
 "A-out/A-err: fmt.Println/Print/Printf/Fprintf append one stdout/stderr event carrying the formatted text; the real utils.report/RuntimeError bodies run, so flag updates are the code's own",
 "A-fmt: %v/%s/%d/%q/%T formatting is modelled per DESIGN §2.5; float64 text is the uninterpreted fmtF (with the ground facts: ints of magnitude < 10^6 print alike as int and float64, from 10^6 on they differ)",
 "A-amd64: float64->int64 conversion is CVTTSD2SQ (out of range and NaN give MinInt64)",
 "bounded: every claim is 'no counterexample within the stated bounds under the stated stubs' (DESIGN §4)",
]
A_VALUES = ["symbolic Borno values range over the host kinds the current tree can produce (hvReachable runs the real lexer/parser/eval producers); text payloads have the stated number of code points, array/object payloads the stated number of scalar elements"]
A_PROBE = ["probes: an arbitrary sub-expression is a call of a harness Callable whose j-th outcome (value or failure) is drawn in advance; children that mutate variables are covered by the scope harness instead"]

props = {}

# ---------------- C01 / C08: parser ----------------
parser_quick = [J("parser","VH_holes",1), J("parser","VH_holes",2), J("parser","VH_free",1), J("parser","VH_free",2)] + \
               [J("parser","VH_template",w) for w in (0,2,3,4,5,6,7,8,9,10,11,12,13,14,15,16,17,18,19,20,21,22)] + [J("parser","VH_reserved")]
parser_quick += [J("parser","VH_mutate",pr,0) for pr in range(14)] + [J("parser","VH_ops",3)]
parser_thorough = parser_quick + [J("parser","VH_mutate",pr,m) for pr in range(14) for m in (1,2)] + [J("parser","VH_free",3), J("parser","VH_template",1), J("parser","VH_holes",3, max_instrs=6000000), J("parser","VH_ops",4, max_instrs=30000000)]
props["C01"] = dict(title="Accepted programs get the syntax tree the documented grammar prescribes",
  bounds="real Parse() on: operand (hole operand)* ; with 1-2 (thorough 3) tokens of arbitrary type among all 50; 1-2 (thorough 3) fully arbitrary tokens; 21 statement/expression templates with 1-3 arbitrary tokens; 14 valid programs with every single token replaced by an arbitrary one (thorough: also one inserted / one deleted) (prefix, suffix chains, parentheses, dangling else, assignment chains, declarations, functions, for headers, literals, unary/power). Longer programs only through the composition argument of DESIGN §4",
  assumptions=["oracle: reference parser written from grammer.txt + the amendments stated in the property (DESIGN A.1, E.2)", "all tokens on one line (the parser's undocumented line-break rule inside declarations is outside the domain)", "'adding parentheses never changes what a program prints' is reduced to tree equality plus C18e (eval(Grouping e) = eval e)"]+A_COMMON[:1],
  quick=parser_quick, thorough=parser_thorough, only_ids="^(tree-is-the-reference-tree|grammatical-sequence-is-accepted)$")
lexer_front = [J("lexer","VH_step",n,0) for n in (1,2,4)] + [J("lexer","VH_whole",1), J("lexer","VH_whole",2)]
props["C08"] = dict(title="Front end is total, accepts exactly the documented language, runs nothing else",
  bounds="parser: as C01 (accept <=> reference accepts; first diagnostic at the reference's first non-viable token, read back from the unique lexeme in the diagnostic); lexer: totality and diagnostics of one scanToken step on n<=4 code points and whole scans n<=2; main: a rejected text is not executed (concrete lexical/syntax error scripts through the real main). Nesting depth 10 000 and fuzzed long texts are outside (host stack growth is not modelled)",
  assumptions=["oracle: reference recogniser from grammer.txt with the property's amendments; trailing comma in an object literal and the Latin name 'input' are treated as unspecified", "the 255/256 boundary is exercised by VH_long: calls, parameter lists and array literals of 254-257 (quick: 255/256) entries whose last entry and following token are of arbitrary type"]+A_COMMON[:1],
  quick=parser_quick+lexer_front+[J("main","VH_outcome",0), J("main","VH_outcome",1)]+[J("parser","VH_long",0,256, max_instrs=400000000), J("parser","VH_long",1,255), J("parser","VH_long",1,256), J("lexer","VH_integer",19, query_timeout_s=600), J("lexer","VH_integer",12)],
  thorough=parser_thorough+lexer_front+[J("lexer","VH_step",6,0), J("main","VH_outcome",0), J("main","VH_outcome",1)]+[J("parser","VH_long",k,n, max_instrs=400000000) for k in (0,1,2) for n in (254,255,256,257)],
  only_ids="^(diagnostic-iff-flag|stdout-untouched|ungrammatical-sequence-is-rejected|grammatical-sequence-is-accepted|diagnostic-names-a-token-of-the-text|first-diagnostic-at-the-first-non-viable-token|bad-assignment-target-diagnosed-at-or-after-its-equals|integer-literal-parses|integer-literal-is-one-token|progress|in-bounds|end|diag-.*|whole-flag|whole-diagnostics|front-end-error-.*|rejected-text-is-not-executed)$")

# ---------------- C02 ----------------
bin_quick = [J(I,"VH_binary",1,1,c) for c in range(8)] + [J(I,"VH_unary",1), J(I,"VH_equality",1,1), J(I,"VH_equality",0,0)] + [J(I,"VH_nested",c,s2) for c in (1,4,5,6) for s2 in (0,1,2)]
bin_thorough = [J(I,"VH_binary",a,b,c) for c in range(8) for (a,b) in ((0,0),(1,1),(2,1),(1,2))] + [J(I,"VH_unary",s) for s in (0,1,2)] + [J(I,"VH_equality",a,b) for (a,b) in ((0,0),(1,1),(2,2),(0,1))] + [J(I,"VH_nested",c,s2) for c in (0,1,3,4,5,6) for s2 in range(5)]
props["C02"] = dict(title="Operators compute the documented result for every combination of operand values",
  bounds="evaluateBinary/evaluateUnary on two arbitrary values (every reachable host kind x every kind, unconstrained doubles / int64 payloads, texts of 1 (thorough 0-2) code points, arrays/objects of 1 scalar element) and an operator token of arbitrary type among all 50",
  assumptions=["oracle: specBinary/specUnary of DESIGN E.4", "% and ** are identities on the math.Mod/math.Pow stubs (uninterpreted)", "string operands under - * / % ** comparisons and bitwise operators, string+boolean, equality of two distinct arrays/objects/functions and integral doubles outside int64 are unspecified and not asserted", "strconv.ParseFloat on symbolic text: uninterpreted, with exact accept/reject for texts of <=2 code points"]+A_VALUES+A_COMMON,
  quick=bin_quick, thorough=bin_thorough)

# ---------------- C03 ----------------
props["C03"] = dict(title="Names resolve through nested block scopes; shadowing and lifetime follow blocks",
  bounds="programs of 2 (thorough 3) top-level statements, nesting depth 1 (thorough 2), over declaration / assignment / read / block / for-header / function declaration / call, every name its own symbolic code point (all collision patterns), run through the real Interpret; recursion depth <= 2; plus VH_scopeLate: a function using a symbolic name, called before and after an arbitrary statement (which may introduce a nearer binding of that name) inside a block / function body / loop body; VH_paramShadow: a parameter bearing the name of any built-in, read and called in the function and in a nested function; VH_scopeBlockFn: a function declared in a block / for body / while body that declares nothing else",
  assumptions=["oracle: scope model of DESIGN E.6 (dynamic resolution through the closure chain, as the property's domain restriction allows)", "values are distinct concrete numbers; reads are print statements"]+A_COMMON[:2],
  quick=[J(I,"VH_scope",1,1, loop_fuel=300), J(I,"VH_scope",2,1, loop_fuel=300), J(I,"VH_scope",3,0, loop_fuel=300), J(I,"VH_scopeFn",0), J(I,"VH_scopeLate",0, loop_fuel=300), J(I,"VH_scopeLate",1, loop_fuel=300), J(I,"VH_scopeLate",2, loop_fuel=300), J(I,"VH_paramShadow",0), J(I,"VH_paramShadow",1), J(I,"VH_factoryPlacement")]+[J(I,"VH_scopeBlockFn",c, loop_fuel=300) for c in (0,1,2)],
  thorough=[J(I,"VH_factoryPlacement")]+[J(I,"VH_scopeBlockFn",c, loop_fuel=300) for c in (0,1,2)]+[J(I,"VH_paramShadow",0), J(I,"VH_paramShadow",1), J(I,"VH_scopeLate",0, loop_fuel=300), J(I,"VH_scopeLate",1, loop_fuel=300), J(I,"VH_scopeLate",2, loop_fuel=300), J(I,"VH_scope",1,2, loop_fuel=300), J(I,"VH_scope",2,1, loop_fuel=300), J(I,"VH_scope",3,1, loop_fuel=300), J(I,"VH_scope",3,0, loop_fuel=300), J(I,"VH_scopeFn",0)])

# ---------------- C04 / C05 / C06 ----------------
stmt_quick = [J(I,"VH_stmt",0,1,3, loop_fuel=400), J(I,"VH_stmt",1,1,3, loop_fuel=400)]
stmt_thorough = stmt_quick + [J(I,"VH_stmt",0,2,2, loop_fuel=400), J(I,"VH_stmt",1,2,2, loop_fuel=400), J(I,"VH_stmt",0,1,5, loop_fuel=400), J(I,"VH_stmt",1,1,5, loop_fuel=400)]
order_all = [J(I,"VH_order",w,0,0) for w in range(15)]
order_faulty = [J(I,"VH_order",w,0,2) for w in (0,3,4,5,6,7,14)]
props["C04"] = dict(title="Calls bind arguments by position, return exactly; closures own captured state",
  bounds="function bodies { S ; tail } with S every statement shape of nesting depth 1 (thorough 2) over probe, print, break, continue, return, if, if/else, while, for, block; 3 (thorough up to 5) outcomes per probe (loops of more iterations are outside); call node with 3 argument probes of every kind; closure programs of VH_closure (counter factory, two closures over one variable, recursion to depth 3, every interleaving of 3 calls; VH_reentrant: a 2-3 parameter call site re-entered through any argument position to depth 1-3, twice; VH_loopClosure: closures made by 3 iterations of a while/for loop, declared directly in the body or in a bare block / if-block / inner loop inside it, called after the loop in any order)",
  assumptions=["oracle: reference semantics refExec (DESIGN E.3); a break/continue escaping a function body is unspecified"]+A_PROBE+A_COMMON[:1],
  quick=[stmt_quick[1], J(I,"VH_order",3,0,0), J(I,"VH_closure",0), J(I,"VH_closure",1), J(I,"VH_closure",2), J(I,"VH_arity"), J(I,"VH_scopeFn",0), J(I,"VH_reentrant"), J(I,"VH_loopClosure"), J(I,"VH_factoryPlacement"), J(I,"VH_manyCalls",140000, loop_fuel=2000000, max_instrs=2000000000), J(I,"VH_emptyArm",1,3, loop_fuel=400)]+[J(I,"VH_scopeLate",c, loop_fuel=300) for c in (0,1,2)],
  thorough=[s for s in stmt_thorough if s["args"][0]==1]+[J(I,"VH_order",3,0,0), J(I,"VH_order",3,1,0), J(I,"VH_closure",0), J(I,"VH_closure",1), J(I,"VH_closure",2), J(I,"VH_arity"), J(I,"VH_reentrant"), J(I,"VH_loopClosure"), J(I,"VH_factoryPlacement"), J(I,"VH_manyCalls",300000, loop_fuel=2000000, max_instrs=2000000000), J(I,"VH_emptyArm",1,3, loop_fuel=400)]+[J(I,"VH_scopeLate",c, loop_fuel=300) for c in (0,1,2)],
  only_ids="^(evaluation-sequence-as-reference|evaluations-match-reference|all-reference-events-happened|print-matches-reference|call-.*|failed-call-yields-nil|argument-.*|arguments-arrive-by-position|callee-entered-.*|closure-.*|arity-.*|recursion-.*|read-.*|diagnostic-expected-by-the-scope-model|every-expected-read-happened|scope-error-reported)$")
props["C05"] = dict(title="Branches and loops run exactly the arms and iterations their conditions dictate",
  bounds="top-level programs { S ; tail } with S every statement shape of nesting depth 1 (thorough 2); 3 (thorough up to 5) outcomes per probe: loops of more iterations are outside the bound (cut and counted)",
  assumptions=["oracle: reference semantics refExec (DESIGN E.3)"]+A_PROBE+A_COMMON[:1],
  quick=[stmt_quick[0], J(I,"VH_conditions",0), J(I,"VH_conditions",1), J(I,"VH_emptyArm",0,3, loop_fuel=400)], thorough=[s for s in stmt_thorough if s["args"][0]==0]+[J(I,"VH_conditions",0), J(I,"VH_conditions",1), J(I,"VH_emptyArm",0,3, loop_fuel=400), J(I,"VH_emptyArm",0,5, loop_fuel=400)],
  only_ids="^(evaluation-sequence-as-reference|evaluations-match-reference|all-reference-events-happened|print-matches-reference|stray-signal-diagnosed-after-all-evaluations|missing-diagnostic|diagnostic-only-when-expected|truthy-.*|falsy-.*|cond-.*)$")
props["C06"] = dict(title="A runtime error stops the program: true cause, right line, nothing afterwards",
  bounds="as C04/C05 (every statement shape, failing probe at every position and invocation), every expression node kind with probe operands of every value kind, exit status through the real main on concrete faulty scripts; diagnostics that quote user text holding a '%' (VH_diagQuoted); non-termination after a diagnostic is detected by loop fuel and confirmed by a native run that does not finish",
  assumptions=["'describes that operation' is checked as: the first diagnostic is the one produced for the planted fault and names its line"]+A_PROBE+A_COMMON[:1],
  quick=stmt_quick+order_all+order_faulty+[J("main","VH_outcome",2), J("main","VH_outcome",3), J("main","VH_outcome",4), J(I,"VH_scope",1,1, loop_fuel=300)]+[J(I,"VH_diagQuoted",w) for w in range(4)]+[J(I,"VH_scope",2,1, loop_fuel=300)],
  thorough=stmt_thorough+order_all+order_faulty+[J(I,"VH_order",w,1,0) for w in range(15)]+[J(I,"VH_order",w,1,2) for w in (0,3,4,5,6,7,14)]+[J("main","VH_outcome",2), J("main","VH_outcome",3), J("main","VH_outcome",4), J(I,"VH_scope",2,1, loop_fuel=300)]+[J(I,"VH_diagQuoted",w) for w in range(4)],
  only_ids="^(no-evaluation-after-first-diagnostic|nothing-printed-after-first-diagnostic|nothing-evaluated-after-first-diagnostic|first-diagnostic-.*|stray-signal-diagnostic-names-its-line|terminates-after-diagnostic|flag-iff-diagnostic|no-operand-evaluated-after-diagnostic|callee-not-entered-after-diagnostic|nothing-printed-after-diagnostic|diagnostic-sets-flag|no-diagnostic-no-flag|runtime-error-.*|missing-diagnostic|scope-error-reported|diagnostic-expected-by-the-scope-model)$")

# ---------------- C09 / C10 ----------------
kw_near = [J("lexer","VH_kwNear",k,m) for k in range(15) for m in (0,1,2)]
props["C09"] = dict(title="Tokens are a faithful maximal-munch partition of the source, with true lines",
  bounds="one scanToken step from offsets 0 and 2 of sources of n<=6 (thorough n<=8, offsets 0,1,3) arbitrary valid code points with an arbitrary current line; whole ScanTokens on n<=2 (thorough 3) code points; longer lexemes/strings/comments only through the step lemma's composition (DESIGN §4)",
  assumptions=["A-utf8: source runes are valid Unicode scalar values", "A-unicode: unicode.IsLetter/IsMark are the toolchain's exact tables (refined lazily per query)", "A-float: strconv.ParseFloat is uninterpreted on non-concrete digit strings", "oracle: specLex (DESIGN E.1); keyword and operator tables transcribed from grammer.txt/README as code points"]+A_COMMON[:1],
  quick=[J("lexer","VH_step",n,c) for (n,c) in ((1,0),(2,0),(4,0),(6,0),(6,2))]+[J("lexer","VH_whole",1), J("lexer","VH_whole",2)]+kw_near,
  thorough=kw_near+[J("lexer","VH_step",n,c) for (n,c) in ((1,0),(2,0),(3,0),(5,0),(7,0),(8,0),(8,1),(8,3))]+[J("lexer","VH_whole",n) for n in (1,2,3)],
  selftest=[J("lexer","VH_selftest")])
overflow_jobs = [J("lexer","VH_fraction",0), J("lexer","VH_fraction",1), J("lexer","VH_overflow",310,0), J("lexer","VH_overflow",309,1), J("lexer","VH_overflow",310,2), J("lexer","VH_overflow",312,2)]
props["C10"] = dict(title="Numeric literals denote the correctly rounded value in either digit script",
  bounds="isDigit on all 2^32 code points; transliteration of every single code point and of texts of <=3 (thorough 5) code points; the number branch of scanToken on n<=6 code points (extent, dot rule, ParseFloat applied to the transliterated lexeme, range error => diagnostic and no token); digit-script swap on n<=3 (thorough 5); integer literals of 3, 12 and 19 (thorough also 18) digits of either script against the exact rounding contract; four literals that sit exactly halfway between adjacent doubles (44-59 characters) extended by 1-2 (thorough 1-4) arbitrary digits of either script: the value must be ParseFloat of the whole transliterated lexeme",
  assumptions=["strconv.ParseFloat is uninterpreted except in VH_integer, where the stub carries its documented contract for integer numerals of <= 19 digits (round-to-nearest-even of the exact value), so 'denotes the nearest double' IS decided for integer literals up to 19 digits and any way of computing the literal must agree with it; for fractions and longer literals what is decided is that the literal is ParseFloat of exactly the transliterated lexeme (VH_number, VH_midpoint: the stub is an uninterpreted function of the text, so a lexer that passes it a prefix or a re-rendered numeral is refuted, and midpoint literals make the counterexample's digits matter natively); that ParseFloat itself rounds fractions correctly and detects overflow remains strconv's (not decided); numerals of digits / digits.digits up to 120 characters never fail and are never NaN (documented)", "VH_integer uses the position-wise summary of ConvertBanglaDigitsToASCII justified by VH_translit1/VH_translitN (which run the real function)"]+A_COMMON[:1],
  quick=[J("lexer","VH_isDigit"), J("lexer","VH_translit1"), J("lexer","VH_translitN",3), J("lexer","VH_step",4,0), J("lexer","VH_step",6,0), J("lexer","VH_swap",3), J("lexer","VH_number",4), J("lexer","VH_integer",3), J("lexer","VH_integer",12), J("lexer","VH_integer",19, query_timeout_s=600)]+[J("lexer","VH_midpoint",w,k) for w in range(4) for k in (1,2)]+overflow_jobs,
  thorough=overflow_jobs+[J("lexer","VH_overflow",400,0), J("lexer","VH_overflow",330,2)]+[J("lexer","VH_midpoint",w,k) for w in range(4) for k in (1,2,3,4)]+[J("lexer","VH_isDigit"), J("lexer","VH_translit1"), J("lexer","VH_translitN",5), J("lexer","VH_step",6,0), J("lexer","VH_step",8,0), J("lexer","VH_swap",5), J("lexer","VH_number",6), J(I,"VH_swapNum",2), J("lexer","VH_integer",3), J("lexer","VH_integer",12), J("lexer","VH_integer",18, query_timeout_s=600), J("lexer","VH_integer",19, query_timeout_s=600)],
  only_ids="^(isDigit-.*|translit.*|number-.*|swap-.*|end|progress|literal-.*|integer-.*|midpoint-.*)$")

# ---------------- C11 / C12 / C13 ----------------
props["C11"] = dict(title="Arrays are bounds-checked shared references; len/append/remove are pure sequence ops",
  bounds="histories of 1 (thorough 2) operations on up to three variables (two possibly aliased) over an initial array of 0-3 elements: indexed write/read with an index value of arbitrary kind (unconstrained doubles), length, append of 1 or 2 values, remove at an arbitrary index value; all variables compared with the list model after every step; plus one step of append/append/remove/write from an array of n elements (0-200, thorough to 1100, around every power of two) with 0-64 (thorough 600) spare slots behind them (VH_arrayBig)",
  assumptions=["oracle: list model of DESIGN E.7", "a string index that is an integer numeral is coerced by the code and not mentioned by the statement: not asserted", "A-growslice: append follows runtime.growslice of go1.23 (size-class rounding)"]+A_VALUES+A_COMMON[:3],
  quick=[J(I,"VH_array",1,s) for s in (0,1,3)]+[J(I,"VH_array",2,2), J(I,"VH_array",2,3)]+[J(I,"VH_stringIndex",o) for o in range(3)]+[J(I,"VH_arrayBig",n,sp) for n in (0,1,3,5,7,31,32,33,63,64,65,127,128,129,200) for sp in (0,1,7,64)],
  thorough=[J(I,"VH_stringIndex",o) for o in range(3)]+[J(I,"VH_arrayBig",n,sp) for n in (0,1,2,3,5,6,7,8,9,15,16,17,31,32,33,63,64,65,100,127,128,129,255,256,257,511,512,513,1023,1024,1025,1100) for sp in (0,1,7,64,600)]+[J(I,"VH_array",1,s) for s in (0,1,2,3)]+[J(I,"VH_array",2,s) for s in (1,2,3)]+[J(I,"VH_array",3,2, max_instrs=8000000)])
obj_ids13 = "initialisers-run-in-source-order|every-initialiser-ran-once|same-listing-every-time|diagnostic-text-repeats|initialisers-run-in-the-same-order-every-time|same-output-every-time|duplicate-key-.*|each-read-consumes-exactly-the-next-line|reads-succeed|constant-literal-program-parses|missing-diagnostic"
props["C12"] = dict(title="Objects are shared key->value maps with consistent read, write, delete, listing",
  bounds="object literals with 0-3 distinct keys parsed by the real parser, then histories of 1 (thorough 2) operations (read/write/delete of present and absent keys through either alias, key and value listing, print, property access on a non-object); every Go map range takes a fresh iteration order (rotations of insertion order; thorough: all permutations)",
  assumptions=["oracle: map model of DESIGN E.7", "A-maporder: counterexamples are searched over the orders the go1.23 runtime produces for small maps (rotations); thorough additionally explores every permutation"]+A_COMMON[:3],
  quick=[J(I,"VH_object",k,1) for k in (0,1,2,3)]+[J(I,"VH_printShared",w) for w in (1,2,3,4)]+[J(I,"VH_objectBig",9, map_orders=2), J(I,"VH_objectBig",16, map_orders=2), J(I,"VH_order",7,0,0), J(I,"VH_equivKeys")], thorough=[J(I,"VH_order",7,0,0), J(I,"VH_order",7,1,0), J(I,"VH_equivKeys")]+[J(I,"VH_objectBig",n, map_orders=3) for n in (7,8,9,16,33)]+[J(I,"VH_printShared",w) for w in (1,2,3,4)]+[J(I,"VH_object",k,s, all_perms=True) for k in (0,1,2,3) for s in (1,2)],
  skip_ids="^("+obj_ids13+")$")
props["C13"] = dict(title="Execution is deterministic",
  bounds="every range-over-map site reachable in the repo (object literal evaluation, key listing, value listing, ObjectLiteral.String in the missing-property diagnostic) with 2-3 keys (also with one name written twice: VH_dupKeys), each loop under an independent iteration order; two reads of a CRLF stdin under every way the operating system may cut the bytes into reads, when the line splitting is the repository's own code (VH_inputCRLF); plus the static inventory of nondeterminism sources (any call outside the modelled stubs makes the run inconclusive)",
  assumptions=["A-maporder as C12", "the clock built-in is excluded by the property", "other sources (goroutines, select, rand, pointer formatting) are excluded by inventory: the executor refuses any callee without a model"],
  quick=[J(I,"VH_object",k,1) for k in (2,3)]+[J(I,"VH_diagText",2), J(I,"VH_diagText",3), J(I,"VH_dupKeys",2), J(I,"VH_dupKeys",3), J("main","VH_inputCRLF",2), J(I,"VH_constInit",2), J(I,"VH_constInit",3), J(I,"VH_equivKeys")],
  thorough=[J(I,"VH_equivKeys", all_perms=True)]+[J(I,"VH_constInit",2, all_perms=True), J(I,"VH_constInit",3, all_perms=True), J("main","VH_inputCRLF",2), J(I,"VH_dupKeys",2, all_perms=True), J(I,"VH_dupKeys",3, all_perms=True)]+[J(I,"VH_object",k,s, all_perms=True) for k in (2,3) for s in (1,2)]+[J(I,"VH_diagText",2, all_perms=True), J(I,"VH_diagText",3, all_perms=True)],
  only_ids="^("+obj_ids13+")$")

# ---------------- C14 ----------------
props["C14"] = dict(title="Operands are evaluated once, left to right; logic short-circuits on truthiness",
  bounds="every operand-carrying node kind (binary, unary, grouping, call with 3 arguments, array literal with 3 elements, index read/write, property read/write, assignment, print, declaration, expression statement, if condition) with probe operands of every value kind; logical and/or with both spellings; isTruthy on every kind with payload size 0-1 (thorough 2)",
  assumptions=["oracle: truthiness table of DESIGN E.5", "object-literal initialiser order is C13"]+A_PROBE+A_VALUES,
  quick=[J(I,"VH_truthy",0), J(I,"VH_truthy",1)]+order_all+[J(I,"VH_logical",s,o) for s in (0,1) for o in (0,1)]+[J(I,"VH_conditions",0)]+[J(I,"VH_orderIdent",w) for w in range(3)],
  thorough=[J(I,"VH_truthy",s) for s in (0,1,2)]+order_all+[J(I,"VH_order",w,1,0) for w in range(15)]+[J(I,"VH_logical",s,o) for s in (0,1) for o in (0,1)]+[J(I,"VH_conditions",0), J(I,"VH_conditions",1)],
  only_ids="^(every-operand-evaluated-before-the-operation-fails|operand-order-.*|truthiness|operand-evaluated-in-reading-order-once|every-operand-evaluated|callee-entered-after-all-arguments|callee-entered-exactly-once|left-evaluated-once|right-.*|result-is-.*|logical-.*|truthy-.*|falsy-.*|node-returns-a-signal)$")

# ---------------- C15 / C16 ----------------
props["C15"] = dict(title="print writes each value faithfully, newline-terminated, consistent with +",
  bounds="the real PrintStatement on every value kind (payload size 0-1, thorough 2), strings nested in arrays and objects (1-2 code points below U+0300, where NFC is the identity; and four concrete texts NFC rewrites — composing accent, composition-excluded U+09DF/U+09DC, two-part vowel sign — as printed string, array element, property value and property name: the whole line must be its own NFC), and the text + splices for numbers and strings (C02's concatenation obligations)",
  assumptions=["NOT decided: that fmt's %v of a float64 is the shortest round-trip numeral with no exponent below 10^6 (fmtF is uninterpreted) and that norm.NFC is NFC (uninterpreted above U+02FF)", "containers: format-agnostic — the text must contain every element / key and value, in order"]+A_VALUES+A_COMMON[:2],
  quick=[J(I,"VH_print",0,0), J(I,"VH_print",1,0), J(I,"VH_printNested",1,0), J(I,"VH_printNested",1,1), J(I,"VH_printNested",0,0), J(I,"VH_printShared",0), J(I,"VH_printShared",1), J(I,"VH_printShared",2), J(I,"VH_printShared",3), J(I,"VH_printShared",4), J(I,"VH_binary",1,1,0)]+[J(I,"VH_printNFC",w) for w in range(5)]+[J(I,"VH_printVsConcat",p) for p in range(19)]+[J(I,"VH_printLong",n) for n in (10,4093,4094,4095,4096,8191)],
  thorough=[J(I,"VH_print",s,r) for s in (0,1,2) for r in (0,1)]+[J(I,"VH_printNested",n,o) for n in (0,1,2) for o in (0,1)]+[J(I,"VH_printShared",w) for w in range(5)]+[J(I,"VH_printNFC",w) for w in range(5)]+[J(I,"VH_printVsConcat",p) for p in range(19)]+[J(I,"VH_printLong",n) for n in (10,4093,4094,4095,4096,4097,8190,8191,8192,12287,70000)]+[J(I,"VH_binary",a,b,0) for (a,b) in ((0,0),(1,1),(2,1))],
  only_ids="^(print-.*|printed-.*|nested-.*|bin-string-result|bin-result-is-string)$")
props["C16"] = dict(title="A value behaves the same however it was produced",
  bounds="11 consumers (both operand positions of every binary operator, unary operators, condition, print alone / inside an array, array index, math built-in argument, object property round trip, delete key, self-equality) run on two host representations of the same value: string vs rune slice (1 code point; thorough 0-2), float64 vs int64, float64 vs int (|n| <= 2^53), and the result of each of 16 producers (every math built-in, length, bitwise/shift/not, addition, modulo, concatenation, run on symbolic arguments) vs the canonical float64/string of the same value; representation pairs come from the reachable-kind inventory and from what the producers actually yield; plus 6 node kinds evaluated with operands as computed expressions vs as literal nodes, so the check is as wide as the tree's representations",
  assumptions=["a pair that the tree cannot produce is not checked (premise false)"]+A_VALUES+A_COMMON[:3],
  quick=[J(I,"VH_rel",c,1,w) for c in (0,1,2) for w in range(11)]+[J(I,"VH_rel",3,p,w) for p in range(19) for w in (0,3,4,6,7)]+[J(I,"VH_math",w,n) for w in (0,1,2,7,8) for n in (1,2)]+[J(I,"VH_relExpr",w,1,3) for w in range(6)]+[J("main","VH_inputOrigin")],
  thorough=[J(I,"VH_rel",c,n,w) for c in (0,1,2) for w in range(11) for n in ((0,1,2) if c==0 else (1,))]+[J(I,"VH_rel",3,p,w) for p in range(19) for w in range(11)]+[J(I,"VH_math",w,n) for w in (0,1,2,7,8) for n in (1,2)]+[J(I,"VH_relExpr",w,sz,5) for w in range(6) for sz in (0,1,2)]+[J("main","VH_inputOrigin")])

# ---------------- C17 ----------------
props["C17"] = dict(title="Math built-ins compute their mathematical function; misuse is a reported error",
  bounds="each of the 9 math built-ins, the clock and the length built-in, resolved by its documented name in the real global scope and invoked through the real Call case with 0-3 (thorough 4) arguments of every value kind (unconstrained doubles); pow with six whole exponents over base points/intervals where a product-then-reciprocal or any other hand-made power differs from the platform's (VH_powWhole)",
  assumptions=["abs, sqrt, round are exact (fp.abs, fp.sqrt RNE, roundToIntegral RNA); pow/sin/cos/tan are identities on uninterpreted stubs (accuracy of the platform's math library is NOT decided)", "string arguments are coerced by the code and not mentioned by the documentation: not asserted", "NaN arguments to min/max are excluded", "A-time: the clock is an arbitrary int64"]+A_VALUES+A_COMMON[:3],
  quick=[J(I,"VH_math",w,n) for w in range(11) for n in (0,1,2,3) if not (w in (7,8) and n==3)]+[J(I,"VH_powWhole",k) for k in range(6)]+[J(I,"VH_clock")],
  thorough=[J(I,"VH_clock")]+[J(I,"VH_powWhole",k) for k in range(6)]+[J(I,"VH_math",w,n) for w in range(11) for n in (0,1,2,3,4) if not (w in (7,8) and n==4)])

# ---------------- C18 ----------------
props["C18"] = dict(title="Meaning is invariant under layout, digit script, synonyms, renaming, parentheses",
  bounds="(a) a blank/tab/CR/LF/line comment/block comment inserted at every chunk boundary of sources of n<=2 code points (whole scans, relational) plus C09's step lemma for longer texts; (b) digit-script swap on number chunks of n<=3 (thorough 5) and on numeric strings at run time; (c) both spellings of and/or in the lexer (C09) and in eval(Logical); (d) every name a symbolic code point in the scope programs of C03; (e) eval(Grouping P) = eval(P) for every outcome of P, and the parser yields Grouping for parentheses (C01 template); (f) unselected arms / function bodies / code after return are never evaluated (C04/C05 reference traces), and a declaration added after the থামো / ফেরত that ends a loop body or a block in a function body changes neither output nor failure (VH_deadCode, all names symbolic)",
  assumptions=["whole-program composition of the six families is by the argument of DESIGN §4", "diagnostics quoting source text (renamed identifiers, '(group …)' in the missing-property message) are compared on line and message template only"],
  quick=[J("lexer","VH_blank",1), J("lexer","VH_blank",2), J("lexer","VH_swap",3), J(I,"VH_logical",0,0), J(I,"VH_logical",0,1), J(I,"VH_grouping",0), J(I,"VH_grouping",1), J(I,"VH_scope",2,1, loop_fuel=300), J("parser","VH_template",2), stmt_quick[0]]+[J(I,"VH_relExpr",w,1,5) for w in (0,1,3)]+[J(I,"VH_deadCode",w, loop_fuel=300) for w in (0,1,2)]+[J(I,"VH_rename"), J(I,"VH_parenProgram")],
  thorough=[J("lexer","VH_blank",n) for n in (1,2,3)]+[J("lexer","VH_swap",5), J(I,"VH_swapNum",2), J(I,"VH_logical",1,0), J(I,"VH_logical",1,1), J(I,"VH_grouping",0), J(I,"VH_grouping",1), J(I,"VH_grouping",2), J(I,"VH_scope",3,1, loop_fuel=300), J("parser","VH_template",2)]+stmt_thorough+[J(I,"VH_deadCode",w, loop_fuel=300) for w in (0,1,2)]+[J(I,"VH_rename"), J(I,"VH_parenProgram")],
  only_ids="^(parenthesised-.*|parentheses-.*|renamed-program-runs|renaming-does-not-change-what-is-printed|dead-code-.*|literal-operand-.*|layout-.*|swap-.*|logical-.*|result-is-.*|right-.*|left-evaluated-once|grouping-.*|read-.*|diagnostic-expected-by-the-scope-model|every-expected-read-happened|scope-error-reported|tree-is-the-reference-tree|evaluation-sequence-as-reference|evaluations-match-reference)$")

# ---------------- C19 / C20 ----------------
props["C19"] = dict(title="Exit status and output streams classify every run correctly",
  bounds="the real main/runFile/run with 0-3 extra arguments, script names of 1-4 code points over {a,b,n,.,/} (every extension shape), present/absent file, one concrete script per outcome class (clean, lexical error, syntax error, runtime error at top level and inside a loop), scripts of 1-2 (thorough 3) lines drawn from a pool of 12 (clean, 6 lexical/syntax errors incl. literals no double can hold, 3 runtime errors) classified by first principles (VH_classify), and stdin of 0-3 lines with/without final newline read by two input calls, the kernel handing the lines over in chunks of every size",
  assumptions=["A-os: os.Args / os.ReadFile / os.Exit / filepath.Ext are modelled (Ext exactly, on code points); A-stdin: a bufio.Reader pulls a chunk of 1..all remaining lines and keeps the rest in that reader object", "the whole pipeline runs on concrete scripts here; the per-phase contracts are C08/C09/C06", "natively the scenarios are replayed through the built binary"],
  quick=[J("main","VH_cli",0,1), J("main","VH_cli",1,3), J("main","VH_cli",1,4), J("main","VH_cli",2,2), J("main","VH_cli",3,1)]+[J("main","VH_outcome",c) for c in range(5)]+[J("main","VH_input",n,f) for n in (0,1,2,3) for f in (0,1)]+[J("main","VH_classify",1), J("main","VH_classify",2), J("main","VH_inputCRLF",2)]+[J("main","VH_inputLong",n) for n in (4095,4096,4097,9000)],
  thorough=[J("main","VH_inputLong",n) for n in (4095,4096,4097,8192,9000,70000)]+[J("main","VH_inputCRLF",2), J("main","VH_classify",1), J("main","VH_classify",2), J("main","VH_classify",3)]+[J("main","VH_cli",0,1)]+[J("main","VH_cli",1,n) for n in (1,2,3,4,5)]+[J("main","VH_cli",2,2), J("main","VH_cli",3,1)]+[J("main","VH_outcome",c) for c in range(5)]+[J("main","VH_input",n,f) for n in (0,1,2,3) for f in (0,1)])
props["C20"] = dict(title="In the REPL a failed line never affects later lines; expression values echo",
  bounds="the real runPrompt/run on sessions of 1-2 (thorough 3) lines drawn from a pool of 8 representative lines (bare expression, print, lexical error, syntax error, two runtime errors, declaration, built-in call): plus sessions that repeat one line 12 (thorough 40) times before any other line (state building up over a session); plus sessions whose first line is 4095-4097 or 70000 bytes long (thorough: around 8192 and 65536, and 140000) followed by two lines (VH_replLong: buffer boundaries of the line reader); the session's stdout/stderr must be the concatenation of the responses each line gives as the only line of a fresh process (package-level state restored to its post-initialisation value)",
  assumptions=["A-stdin: bufio.Scanner delivers one line per Scan unless the line reaches its token limit (64 KB unless Buffer raises it), after which Scan reports false; bufio.Reader.ReadLine hands out pieces of at most 4096 bytes", "lines that call the input built-in are outside the property's pool"],
  quick=[J("main","VH_repl",1), J("main","VH_repl",2), J("main","VH_replEcho"), J("main","VH_replRepeat",12, max_instrs=30000000)]+[J("main","VH_replLong",n, loop_fuel=200000, max_instrs=400000000) for n in (4095,4096,4097,70000)]+[J("main","VH_replDeep",3000,4, loop_fuel=100000, max_instrs=2000000000, max_call_depth=100000)], thorough=[J("main","VH_replDeep",3000,4, loop_fuel=100000, max_instrs=2000000000, max_call_depth=100000), J("main","VH_replDeep",9000,12, loop_fuel=100000, max_instrs=2000000000, max_call_depth=200000)]+[J("main","VH_replLong",n, loop_fuel=400000, max_instrs=900000000) for n in (4095,4096,4097,8191,8192,8200,65535,65536,65537,70000,140000)]+[J("main","VH_repl",1), J("main","VH_repl",2), J("main","VH_repl",3), J("main","VH_replEcho"), J("main","VH_replRepeat",12, max_instrs=30000000), J("main","VH_replRepeat",40, max_instrs=90000000)])

# ---------------- C07: union of panic obligations ----------------
props["C07"] = dict(title="No program can make the interpreter terminate abnormally",
  bounds="every panic obligation (index/slice bounds, nil dereference, failed type assertion, comparing uncomparable values, negative shift count, nil map write, integer division by zero, explicit panic) met on every path of every harness of every other property at its quick bound (thorough: the thorough bound for C02, C09, C10, C14, C15, C17, C19, C20; the other properties' thorough checks evaluate their own panic obligations themselves — every check counts a panic as a violation; the token-sequence, layout and long concrete harnesses are left out of the union for the same reason)",
  assumptions=["unbounded user recursion ends in a host stack overflow: excluded by the property's domain", "fmt on a self-containing slice/map is modelled as what it is: unbounded recursion ending in a runtime abort (VH_cyclic)", "allocation failure and faults inside stubbed library code are outside"],
  quick=[J(I,"VH_cyclic",w) for w in range(4)], thorough=[J(I,"VH_cyclic",w) for w in range(4)], panics_only=True, include=["C02","C09","C10","C14","C15","C17","C19","C20"], include_quick=["C01","C03","C04","C05","C06","C08","C11","C12","C13","C16","C18"], exclude_included="^(VH_manyCalls|VH_template|VH_long|VH_ops|VH_holes|VH_free|VH_mutate|VH_reserved|VH_replDeep|VH_replLong|VH_blank|VH_swap|VH_deadCode|VH_scopeLate)$")

props["C02"]["quick"] += [J(I,"VH_powWhole",k) for k in range(6)] + [J(I,"VH_concatTwice",0), J(I,"VH_concatTwice",1)]
props["C02"]["thorough"] += [J(I,"VH_powWhole",k) for k in range(6)] + [J(I,"VH_concatTwice",0), J(I,"VH_concatTwice",1)]
props["C01"]["selftest"] = [J("parser","VH_selftest")]
props["C08"]["selftest"] = [J("parser","VH_selftest"), J("lexer","VH_selftest")]
for pid in ("C02","C03","C04","C05","C06","C07","C11","C12","C13","C14","C15","C16","C17"):
    props[pid]["selftest"] = [J(I,"VH_selftest")]
props["C18"]["selftest"] = [J(I,"VH_selftest"), J("lexer","VH_selftest")]
props["C10"]["selftest"] = [J("lexer","VH_selftest")]
props["C19"]["selftest"] = [J("main","VH_selftest")]
props["C20"]["selftest"] = [J("main","VH_selftest")]
json.dump(props, open("/verif/harness/jobs.json","w"), indent=1, ensure_ascii=False)
print("jobs.json written:", {k:(len(v["quick"]),len(v.get("thorough",[]))) for k,v in props.items()})

# ---------------- MANIFEST.json ----------------
level_text = {
 "C01": "Bounded symbolic execution of the real Parse() (go/ssa) on token sequences with symbolic token types, compared with a reference parser written from grammer.txt; z3 decides every branch and obligation. A pass means: no token sequence within the stated shapes parses to a tree other than the documented one.",
 "C02": "Bounded symbolic execution of the real evaluateBinary/evaluateUnary on two symbolic values of every reachable host kind (all 2^64 doubles, all int64) and a symbolic operator type, against the operator specification; FP/BV queries decided by z3 and cvc5 in a race.",
 "C03": "Bounded symbolic execution of the real Interpret on every program skeleton up to the bound with every name a symbolic code point (the solver decides which names collide), against the scope model.",
 "C04": "Bounded symbolic execution of the real eval/Function.Call on every function-body shape up to the bound with probe leaves (symbolic outcomes), checked online against reference semantics; closures, recursion and arity through the real pipeline.",
 "C05": "As C04 for top-level control flow: every statement shape up to the bound, symbolic per-iteration truthiness and failures, compared event by event with the reference semantics.",
 "C06": "Every statement shape and expression node with a failing probe at every position/invocation: nothing observable after the first diagnostic, right line, termination (loop fuel + native non-terminating replay), exit status through the real main.",
 "C07": "The union of all panic obligations (index, slice, nil, type assertion, uncomparable ==, negative shift, nil map, division) generated on every path of every other property's harnesses; each is a solver query unless syntactically impossible.",
 "C08": "Parser: accept <=> reference and first diagnostic at the reference's first non-viable token for every bounded token sequence; lexer: one-step totality for all code points; main: rejected texts are not executed.",
 "C09": "One-step lemma of the real scanToken over n arbitrary code points from an arbitrary position and line (all 2^32-ish code points per position, exact Unicode tables by refinement) plus whole scans of short texts, against the declarative tokeniser specification.",
 "C10": "isDigit and transliteration decided for every code point; number branch of the lexer and digit-script swap decided for bounded texts; correct rounding itself is strconv's and is not decided.",
 "C11": "Histories of array operations through the real eval cases and built-ins with index values of arbitrary kind (all doubles), compared with a pure list model after every step; Go slice aliasing and append growth are modelled exactly.",
 "C12": "Histories of object operations through the real parser/eval/built-ins under every iteration order of every map range, compared with a pure map model.",
 "C13": "Every range-over-map site executed under independent symbolic iteration orders; any unmodelled source of nondeterminism makes the run inconclusive rather than pass.",
 "C14": "Every operand-carrying node with probe operands of every kind: evaluation order and count; logical short circuit; truthiness for every kind and payload.",
 "C15": "Real PrintStatement on every value kind and nested strings, text compared symbolically (uninterpreted float rendering, structural/solver-decided containment).",
 "C16": "Relational: each consumer executed on two host representations of the same value; representations are taken from what the current tree can produce.",
 "C17": "Each math built-in through the real Call case under its documented name with 0-3 arguments of every kind; abs/sqrt/round exact in FP theory; others on uninterpreted stubs.",
 "C18": "Six metamorphic families as relational symbolic harnesses (layout insertion, digit-script swap, operator spelling, symbolic names, grouping, dead code).",
 "C19": "Real main/runFile/run under a model of argv, files, exit and stdin chunking; symbolic script names; natively replayed through the built binary.",
 "C20": "Real runPrompt/run on every session of up to the bound over a pool of lines, relational against fresh single-line sessions.",
}
checks = []
for pid in sorted(props):
    p = props[pid]
    checks.append({
        "property_id": pid,
        "quick_cmd": "./check %s quick" % pid,
        "thorough_cmd": "./check %s thorough" % pid,
        "evidence_file": "/verif/evidence/%s.json" % pid,
        "replay_cmd_template": "./check --replay {path}",
        "engine": "bsym",
        "level_claimed": {"category": "model_checking", "text": level_text[pid] + " Bounded: " + p["bounds"], "design_ref": "DESIGN.md §3 (" + pid + "), §2"},
        "level_note": "Trusted base: the harness oracles (DESIGN Appendix E), the engine's Go->SMT semantics (validated by concrete differential runs and by replaying every counterexample natively), the solvers, and the stubs: " + "; ".join(p["assumptions"][:4]),
        "technique": "bounded symbolic execution of the repo's go/ssa (own engine) + SMT (z3/cvc5): unsat = holds within bounds, sat = counterexample replayed natively",
    })
manifest = {
 "version": 1,
 "setup_cmd": "cd engine && GOFLAGS=-mod=mod GOPROXY=off GOSUMDB=off GOTOOLCHAIN=local go build -o ../bin/bsym .",
 "hooks": {"guard": "verif", "enable": "none needed: harnesses, probes and replay shims are overlay files (go/packages Overlay for the engine, go test -overlay for native replay); the build tag 'verif' is reserved and unused",
           "baseline_off_cmd": "cd /repo && GOPROXY=off GOSUMDB=off GOTOOLCHAIN=local go test -json -vet=off -count=1 ./...", "source_commits": [], "add_only": True},
 "engines": [{"name": "bsym", "path": "/verif/engine", "serves_properties": sorted(props), "kind_free_text": "symbolic executor for go/ssa written for this task: tagged-union interface model, heap with Go aliasing semantics, symbolic map-iteration order, pure-callee summarisation, z3 (incremental for Bool/BV) and z3-vs-cvc5 race for FP, lazy refinement of the Unicode class tables, native replay of every counterexample"}],
 "checks": checks,
 "notes": "Every result is 'no counterexample within the stated bounds under the stated stubs'. Clauses not decided by this technique here (recorded under assumptions in each evidence file): correct rounding/overflow of strconv.ParseFloat (C10), shortest round-trip float text and NFC (C15), accuracy of pow/sin/cos/tan (C17), nesting depth 10 000 and fuzzed long texts (C08), real process behaviour beyond the stubs (C13/C19/C20), unbounded recursion (C07). 14 genuine defects were found by these checks, replayed natively, and repaired in /repo by 'fix:' commits (known_findings.json lists them as fixed).",
 "not_applicable": [],
}
json.dump(manifest, open("/verif/MANIFEST.json","w"), indent=1, ensure_ascii=False)
print("MANIFEST.json written with", len(checks), "checks")
