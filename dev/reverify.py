#!/usr/bin/env python3
# Re-checks every saved seeded change against the current checks: applies seeded/<id>/patch.diff
# to a scratch worktree of /repo, runs the check named in meta.json (detected_by: "./check Cxx tier",
# default: the seed's property, quick) with -repo <worktree>, and reports exit status and the
# first violation. Scratch worktrees live under /tmp and are removed. Usage: dev/reverify.py [ids...]
import json, os, re, subprocess, sys, glob
ids = sys.argv[1:] or sorted(os.path.basename(d) for d in glob.glob('/verif/seeded/C*'))
env = dict(os.environ, GOPROXY='off', GOSUMDB='off', GOTOOLCHAIN='local')
out = open('/verif/dev/reverify.log', 'a')
for sid in ids:
    d = '/verif/seeded/' + sid
    meta = json.load(open(d + '/meta.json'))
    m = re.search(r'\./check (C\d\d) (quick|thorough)', meta.get('detected_by', ''))
    prop, tier = (m.group(1), m.group(2)) if m else (meta['property'], 'quick')
    if tier == 'thorough' and 'quick' in meta.get('detected_by', ''):
        tier = 'quick'
    wt = '/tmp/rv-' + sid
    subprocess.run(['git', '-C', '/repo', 'worktree', 'remove', '--force', wt], capture_output=True)
    subprocess.run(['git', '-C', '/repo', 'worktree', 'add', '-q', '--detach', wt, 'HEAD'], check=True)
    ok = subprocess.run(['git', '-C', wt, 'apply', '--3way', d + '/patch.diff'], capture_output=True)
    if ok.returncode != 0:
        ok = subprocess.run(['git', '-C', wt, 'apply', d + '/patch.diff'], capture_output=True)
    if ok.returncode != 0:
        line = f'{sid} {prop} PATCH-DOES-NOT-APPLY'
    else:
        r = subprocess.run(['/verif/bin/bsym', 'check', '-workers', os.environ.get('RV_WORKERS', '4'), '-repo', wt, '-prop', prop, '-tier', tier], capture_output=True, text=True, env=env)
        viol = [l.split('# ', 1)[-1] for l in r.stdout.splitlines() if l.startswith('VIOLATION')]
        line = f'{sid} {prop} {tier} exit={r.returncode} violations={len(viol)} first={viol[0][:110] if viol else "-"}'
    print(line, flush=True)
    out.write(line + '\n'); out.flush()
    subprocess.run(['git', '-C', '/repo', 'worktree', 'remove', '--force', wt], capture_output=True)
subprocess.run(['git', '-C', '/repo', 'worktree', 'prune'])
