#!/bin/sh
# usage: dev/seedcheck.sh <seed-name> <worktree> <props...>  — confirms a seeded change (builds, baseline tests, demo) and runs checks against it
name=$1; wt=$2; shift 2
export GOPROXY=off GOSUMDB=off GOTOOLCHAIN=local
echo "## $name"
(cd $wt && go build ./... ) || { echo "DOES NOT BUILD"; exit 1; }
(cd $wt && go test -json -vet=off -count=1 ./... 2>/dev/null > /tmp/seed-test-$name.json)
SCNAME=$name python3 - <<'PY'
import json
base=set(json.load(open('/root/.vp/BASELINE.json'))['stable_pass']); passed=set()
for l in open('/tmp/seed-test-'+__import__('os').environ['SCNAME']+'.json'):
    try: e=json.loads(l)
    except: continue
    if e.get('Action')=='pass' and e.get('Test'): passed.add(e['Package']+'::'+e['Test'])
print('baseline tests passing:', len(base&passed), 'of', len(base), 'missing', sorted(base-passed)[:3])
PY
(cd $wt && go build -o /tmp/borno-seed-$name . ) && (cd /repo && go build -o /tmp/borno-orig-$name . )
for d in ${SEEDDIR:-/tmp/seed-$name}/*.bn; do
  [ -f "$d" ] || continue
  timeout 10 /tmp/borno-orig-$name $d > /tmp/o1-$name.txt 2>/tmp/e1-$name.txt; s1=$?
  timeout 10 /tmp/borno-seed-$name $d > /tmp/o2-$name.txt 2>/tmp/e2-$name.txt; s2=$?
  if cmp -s /tmp/o1-$name.txt /tmp/o2-$name.txt && cmp -s /tmp/e1-$name.txt /tmp/e2-$name.txt && [ $s1 = $s2 ]; then echo "demo $(basename $d): SAME behaviour (exit $s1)"; else echo "demo $(basename $d): DIFFERS (orig exit $s1, changed exit $s2)"; fi
done
for p in "$@"; do
  /verif/bin/bsym check -repo $wt -prop $p -tier ${TIER:-quick} > /tmp/seedcheck-$name-$p.out 2>&1; echo "check $p exit=$? : $(grep -c '^VIOLATION' /tmp/seedcheck-$name-$p.out) violations; $(grep '^VIOLATION' /tmp/seedcheck-$name-$p.out | sed 's/.*# //' | sort -u | head -3 | tr '\n' '|') $(grep '^INCONCLUSIVE' /tmp/seedcheck-$name-$p.out | head -2 | cut -c1-200)"
done
