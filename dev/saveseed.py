#!/usr/bin/env python3
# usage: dev/saveseed.py <seed-dir-name> <property> <worktree> "<what it needs>" "<caught by>" [checks...]
import sys, os, shutil, subprocess, json, glob
name, prop, wt, needs, caught = sys.argv[1:6]
dst = "/verif/seeded/" + name
os.makedirs(dst, exist_ok=True)
diff = subprocess.run(["git", "-C", wt, "diff"], capture_output=True, text=True).stdout
open(dst + "/patch.diff", "w").write(diff)
src = "/tmp/seed-" + name.split("-")[0] if not os.path.isdir("/tmp/seed-" + name) else "/tmp/seed-" + name
for f in glob.glob(src + "/*"):
    if os.path.basename(f) != "patch.diff" and os.path.getsize(f) < 200000:
        shutil.copy(f, dst)
meta = {"property": prop, "breaks": prop, "needs_to_manifest": needs,
        "confirmed": "applied to a scratch worktree of /repo HEAD: go build ok; the 157 baseline tests still pass; the demonstration behaves differently with the change (fails) and without it (passes) — ran dev/seedcheck.sh",
        "detected_by": caught, "source": "independent sub-agent given only the property text"}
json.dump(meta, open(dst + "/meta.json", "w"), indent=1, ensure_ascii=False)
print("saved", dst, os.listdir(dst))
