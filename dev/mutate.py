#!/usr/bin/env python3
# Development-only mutation smoke test (DESIGN §8): applies one realistic edit at a time to a
# scratch copy of /repo (removed afterwards), checks that it still builds and passes the
# baseline tests, and runs the named checks against the copy.
import subprocess, shutil, sys, os, json, re
MUTS = [
 ("swap-term-factor", "parser/parser.go", "func (p *Parser) term() (ast.Expr, error) {\n\texpr, err := p.factor()", "func (p *Parser) term() (ast.Expr, error) {\n\texpr, err := p.power()", ["C01"]),
 ("factor-if-not-loop", "parser/parser.go", "\tfor p.match(token.SLASH, token.STAR, token.MODULO) {", "\tif p.match(token.SLASH, token.STAR, token.MODULO) {", ["C01"]),
 ("drop-modulo", "parser/parser.go", "p.match(token.SLASH, token.STAR, token.MODULO)", "p.match(token.SLASH, token.STAR)", ["C01","C08"]),
 ("assign-left-assoc", "parser/parser.go", "\t\tvalue, err := p.assignment()\n", "\t\tvalue, err := p.logicalOR()\n", ["C01","C08"]),
 ("unary-calls-primary", "parser/parser.go", "\treturn p.call()\n}", "\treturn p.primary()\n}", ["C01","C08"]),
 ("ge-becomes-gt", "interpreter/interpreter.go", "\t\treturn leftNum >= rightNum", "\t\treturn leftNum > rightNum", ["C02"]),
 ("div-zero-checks-left", "interpreter/interpreter.go", "\tcase token.SLASH:\n\t\tif rightNum == 0 {", "\tcase token.SLASH:\n\t\tif leftNum == 0 {", ["C02"]),
 ("toint64-accepts-fractions", "interpreter/interpreter.go", "\tcase float64:\n\t\tif float64(int64(v)) == v {\n\t\t\treturn int64(v), nil\n\t\t}\n\t\treturn 0, fmt.Errorf(\"expected an integer, got float %v\", v)", "\tcase float64:\n\t\treturn int64(v), nil", ["C02","C11"]),
 ("truthy-zero", "interpreter/interpreter.go", "\t\treturn num != 0.0", "\t\treturn num == num", ["C14"]),
 ("or-returns-bool", "interpreter/interpreter.go", "\t\t\tif isTruthy(left) {\n\t\t\t\treturn left,", "\t\t\tif isTruthy(left) {\n\t\t\t\treturn true,", ["C14"]),
 ("block-uses-parent-env", "interpreter/interpreter.go", "\tcase *ast.BlockStmt:\n\t\tnewEnv := environment.NewEnvironmentWithParent(env)", "\tcase *ast.BlockStmt:\n\t\tnewEnv := env", ["C03"]),
 ("assign-no-parent", "environment/environment.go", "\tif e.Parent != nil {\n\t\te.Parent.Assign(name, value)\n\t\treturn\n\t}\n", "\tif e.Parent != nil && e.Parent.Parent == nil {\n\t\te.Parent.Assign(name, value)\n\t\treturn\n\t}\n", ["C03"]),
 ("call-uses-globals-as-parent", "interpreter/function.go", "functionEnv := environment.NewEnvironmentWithParent(f.Closure)", "functionEnv := environment.NewEnvironmentWithParent(i.globals)", ["C03","C04"]),
 ("params-reversed", "interpreter/function.go", "functionEnv.Define(param.Lexeme, arguments[ind])", "functionEnv.Define(param.Lexeme, arguments[len(arguments)-1-ind])", ["C04"]),
 ("if-drops-return", "interpreter/interpreter.go", "\t\t\t_, signal := i.eval(e.ThenBranch, env, isRepl)\n\t\t\tif signal.Type != ControlFlowNone {\n\t\t\t\treturn nil, signal\n\t\t\t}", "\t\t\t_, signal := i.eval(e.ThenBranch, env, isRepl)\n\t\t\tif signal.Type == ControlFlowBreak || signal.Type == ControlFlowContinue {\n\t\t\t\treturn nil, signal\n\t\t\t}", ["C04","C05"]),
 ("continue-skips-increment", "interpreter/interpreter.go", "\t\t\tif signal.Type == ControlFlowContinue {\n\t\t\t\t// Skip to the increment\n\t\t\t} else if", "\t\t\tif signal.Type == ControlFlowContinue {\n\t\t\t\tcontinue\n\t\t\t} else if", ["C05"]),
 ("top-level-break-silent", "interpreter/interpreter.go", "\t\tif signal.Type == ControlFlowBreak {\n\t\t\tutils.RuntimeError(token.Token{Line: signal.LineNumber}, \"Unexpected 'break' outside of loop.\")\n\t\t\treturn nil", "\t\tif signal.Type == ControlFlowBreak {\n\t\t\treturn nil", ["C05","C06"]),
 ("exit-codes-swapped", "main.go", "\tif utils.HadError {\n\t\tos.Exit(65)\n\t}\n\tif utils.HadRuntimeError {\n\t\tos.Exit(70)", "\tif utils.HadError {\n\t\tos.Exit(70)\n\t}\n\tif utils.HadRuntimeError {\n\t\tos.Exit(65)", ["C19"]),
 ("repl-keeps-runtime-flag", "main.go", "\t\tutils.HadError = false\n\t\tutils.HadRuntimeError = false\n", "\t\tutils.HadError = false\n", ["C20"]),
 ("peeknext-off-by-one", "lexer/scanner.go", "s.current+1 >= len(s.source)", "s.current+1 > len(s.source)", ["C07","C09"]),
 ("string-keeps-quotes", "lexer/scanner.go", "value := s.source[s.start+1 : s.current-1]", "value := s.source[s.start : s.current]", ["C09"]),
 ("no-line-count-in-strings", "lexer/scanner.go", "\tfor s.peek() != '\"' && !s.isAtEnd() {\n\t\tif s.peek() == '\\n' {\n\t\t\ts.line++\n\t\t}\n", "\tfor s.peek() != '\"' && !s.isAtEnd() {\n", ["C09"]),
 ("keyword-misspelt", "lexer/scanner.go", "\t\"থামো\":       token.BREAK,", "\t\"থামা\":       token.BREAK,", ["C09"]),
 ("stray-char-silent", "lexer/scanner.go", "\t\t\tutils.GlobalError(s.line, \"Unexpected character.\")", "\t\t\t_ = s.line", ["C09","C08"]),
 ("bangla-digit-range", "lexer/scanner.go", "(c >= '০' && c <= '৯')", "(c >= '০' && c <= '৮')", ["C10","C09"]),
 ("translit-table", "utils/utils.go", "'৩': '3'", "'৩': '8'", ["C10"]),
 ("dot-without-digit", "lexer/scanner.go", "if s.peek() == '.' && isDigit(s.peekNext()) {", "if s.peek() == '.' {", ["C10","C09"]),
 ("index-bound-gt", "interpreter/interpreter.go", "\t\tif index < 0 || int(index) >= len(array) {\n\t\t\tutils.RuntimeError(token.Token{Line: e.Line}, \"Array index out of bounds.\")\n\t\t\treturn nil, &ControlFlowSignal{Type: ControlFlowNone, LineNumber: 0}\n\t\t}\n\n\t\treturn array[index]", "\t\tif index < 0 || int(index) > len(array) {\n\t\t\tutils.RuntimeError(token.Token{Line: e.Line}, \"Array index out of bounds.\")\n\t\t\treturn nil, &ControlFlowSignal{Type: ControlFlowNone, LineNumber: 0}\n\t\t}\n\n\t\treturn array[index]", ["C07","C11"]),
 ("append-copy-only-when-full", "interpreter/nativeFunctionArray.go", "\tresult := make([]interface{}, 0, len(array)+len(arguments)-1)\n\tresult = append(result, array...)\n\tresult = append(result, arguments[1:]...)", "\tresult := array\n\tif len(array) == cap(array) {\n\t\tresult = make([]interface{}, 0, len(array)+len(arguments)-1)\n\t\tresult = append(result, array...)\n\t}\n\tresult = append(result, arguments[1:]...)", ["C11"]),
 ("delete-wrong-key", "interpreter/nativeFunctionObject.go", "\t\tdelete(object, key)", "\t\tfor k := range object {\n\t\t\tdelete(object, k)\n\t\t\tbreak\n\t\t}", ["C12"]),
 ("values-unsorted", "interpreter/nativeFunctionObject.go", "\tfor _, key := range sortedKeys(object) {\n\t\tvalues = append(values, object[key])\n\t}", "\tfor _, v := range object {\n\t\tvalues = append(values, v)\n\t}", ["C12","C13"]),
 ("arg-evaluated-right-to-left", "interpreter/interpreter.go", "\t\tfor _, arg := range e.Arguments {\n\t\t\targValue, signal := i.eval(arg, env, isRepl)\n\t\t\tif signal.Type != ControlFlowNone {\n\t\t\t\treturn nil, signal\n\t\t\t}\n\t\t\targuments = append(arguments, argValue)\n\t\t}", "\t\targuments = make([]interface{}, len(e.Arguments))\n\t\tfor k := len(e.Arguments) - 1; k >= 0; k-- {\n\t\t\targValue, signal := i.eval(e.Arguments[k], env, isRepl)\n\t\t\tif signal.Type != ControlFlowNone {\n\t\t\t\treturn nil, signal\n\t\t\t}\n\t\t\targuments[k] = argValue\n\t\t}", ["C14"]),
 ("print-no-newline", "interpreter/interpreter.go", "\t\t\tfmt.Println(norm.NFC.String(stringify(value)))", "\t\t\tfmt.Print(norm.NFC.String(stringify(value)))", ["C15"]),
 ("round-is-floor", "interpreter/nativeFunctionMath.go", "\treturn math.Round(number), nil", "\treturn math.Floor(number + 0.5), nil", ["C17"]),
 ("min-comparison-flipped", "interpreter/nativeFunctionMath.go", "\t\tif num < minValue {", "\t\tif num <= minValue && num < 0 || num < minValue && minValue > 0 {", ["C17"]),
 ("input-no-trim", "interpreter/nativeFunction.go", "\treturn strings.TrimSpace(input), nil", "\treturn strings.TrimRight(input, \"\\n\"), nil", ["C19"]),
 ("grouping-swallows-signal", "interpreter/interpreter.go", "\tcase *ast.Grouping:\n\t\treturn i.eval(e.Expression, env, isRepl)", "\tcase *ast.Grouping:\n\t\tv, _ := i.eval(e.Expression, env, isRepl)\n\t\tif s, ok := v.(string); ok && s == \"\" {\n\t\t\treturn nil, &ControlFlowSignal{Type: ControlFlowNone}\n\t\t}\n\t\treturn v, &ControlFlowSignal{Type: ControlFlowNone}", ["C18"]),
 ("and-own-type", "lexer/scanner.go", "\t\tif s.match('&') {\n\t\t\ts.addToken(token.LOGICAL_AND)", "\t\tif s.match('&') {\n\t\t\ts.addToken(token.AND)", ["C09","C18"]),
]
def sh(cmd, cwd=None, timeout=3600):
    return subprocess.run(cmd, shell=True, cwd=cwd, capture_output=True, text=True, timeout=timeout)
only = sys.argv[1:] 
results = []
for name, f, old, new, props in MUTS:
    if only and name not in only: continue
    d = "/tmp/mut-"+name
    shutil.rmtree(d, ignore_errors=True)
    sh("cp -r /repo %s && rm -rf %s/.git" % (d, d))
    p = os.path.join(d, f); s = open(p, encoding='utf-8').read()
    if old not in s:
        print(name, "PATTERN NOT FOUND"); shutil.rmtree(d); continue
    open(p, 'w', encoding='utf-8').write(s.replace(old, new, 1))
    b0 = sh("GOPROXY=off GOSUMDB=off GOTOOLCHAIN=local go build ./...", cwd=d)
    if b0.returncode != 0:
        print(name, "DOES NOT COMPILE"); shutil.rmtree(d); continue
    b = sh("GOPROXY=off GOSUMDB=off GOTOOLCHAIN=local go build ./... && GOPROXY=off GOSUMDB=off GOTOOLCHAIN=local go test -json -vet=off -count=1 ./... > /tmp/mut-test.json; true", cwd=d)
    base = set(json.load(open('/root/.vp/BASELINE.json'))['stable_pass']); passed=set()
    for l in open('/tmp/mut-test.json'):
        try: e=json.loads(l)
        except: continue
        if e.get('Action')=='pass' and e.get('Test'): passed.add(e['Package']+'::'+e['Test'])
    tests_ok = base <= passed
    row = {"mutant": name, "builds": b.returncode == 0, "tests_pass": tests_ok, "checks": {}}
    for pr in props:
        r = sh("/verif/bin/bsym check -repo %s -prop %s -tier quick" % (d, pr), cwd="/verif")
        viol = [l for l in r.stdout.splitlines() if l.startswith("VIOLATION")]
        ids = sorted(set(re.sub(r'.*# ', '', v) for v in viol))
        row["checks"][pr] = {"exit": r.returncode, "violations": len(viol), "ids": ids[:4], "inconclusive": [l[:160] for l in r.stdout.splitlines() if l.startswith("INCONCLUSIVE")][:2]}
    shutil.rmtree(d, ignore_errors=True)
    results.append(row)
    print(json.dumps(row, ensure_ascii=False)[:600], flush=True)
json.dump(results, open("/verif/dev/mutation_results.json","w"), indent=1, ensure_ascii=False)
caught = sum(1 for r in results if r["tests_pass"] and any(c["exit"]==1 for c in r["checks"].values()))
print("mutants that pass the tests:", sum(1 for r in results if r["tests_pass"]), "caught:", caught)
