package main

// Translator validation for the process model (DESIGN I.2): concrete scripts and REPL sessions
// run through the real main() once from SSA under the modelled os/bufio and once through the
// built binary; stdout, stderr and the exit status must be identical.

import "fmt"

func VH_selftest() {
	scripts := []string{progClean, progLexErr, progSynErr, progRunErr, progRunErr2, "1 + 2;\n", ""}
	for _, src := range scripts {
		verifSetArgs("borno", "t.bn")
		verifSetFile(true, src)
		verifSetStdin(0, true)
		verifRunMain()
		verifRecord(fmt.Sprintf("script out=%q err=%q exit=%d", verifProcStdout(), verifProcStderr(), verifProcExit()))
	}
	verifSetArgs("borno", "t.bn")
	verifSetFile(true, "\u09a6\u09c7\u0996\u09be\u0993 \u0987\u09a8\u09aa\u09c1\u099f(\"50%> \");\n")
	verifSetStdinText("  first  ")
	verifRunMain()
	verifRecord(fmt.Sprintf("input out=%q err=%q exit=%d", verifProcStdout(), verifProcStderr(), verifProcExit()))
	verifSetArgs("borno", "t.txt")
	verifSetFile(true, progClean)
	verifSetStdin(0, true)
	verifRunMain()
	verifRecord(fmt.Sprintf("ext exit=%d", verifProcExit()))
	verifSetArgs("borno", "a.bn", "b.bn")
	verifRunMain()
	verifRecord(fmt.Sprintf("args exit=%d", verifProcExit()))
	verifSetArgs("borno", "t.bn")
	verifSetFile(false, "")
	verifRunMain()
	verifRecord(fmt.Sprintf("missing exit=%d", verifProcExit()))
	for _, l := range replPool {
		verifSetArgs("borno")
		verifSetStdinText(l)
		verifRunMain()
		verifRecord(fmt.Sprintf("repl out=%q err=%q exit=%d", verifProcStdout(), verifProcStderr(), verifProcExit()))
	}
	verifSetArgs("borno")
	verifSetStdinText(replPool...)
	verifRunMain()
	verifRecord(fmt.Sprintf("session out=%q err=%q exit=%d", verifProcStdout(), verifProcStderr(), verifProcExit()))
}
