package main

// C19 / C20: the real main(), runFile(), run() and runPrompt() under the process model
// (A-os, A-stdin): symbolic script names, present/absent files, stdin delivered in chunks of
// arbitrary size, REPL sessions over a pool of lines. Observations are the process's stdout,
// stderr and exit status; natively the same scenarios are replayed through the built binary.

import (
	"fmt"
	"strings"

	"golang.org/x/text/unicode/norm"
)

// script names over a small alphabet that contains every character the extension rule cares about
func nameRune() rune {
	r := verifNondetRune()
	verifAssume(r == 'a' || r == 'b' || r == 'n' || r == '.' || r == '/')
	return r
}

func scriptName(n int) string {
	rs := make([]rune, n)
	for i := 0; i < n; i++ {
		rs[i] = nameRune()
	}
	return string(rs)
}

func endsWithBn(s string) bool {
	r := []rune(s)
	n := len(r)
	if n < 3 {
		return false
	}
	return r[n-3] == '.' && r[n-2] == 'b' && r[n-1] == 'n'
}

// usableName: a name the native replay can create as a file (no empty path elements, not a directory)
func usableName(s string) bool {
	r := []rune(s)
	if len(r) == 0 {
		return false
	}
	if r[len(r)-1] == '/' {
		return false
	}
	if r[0] == '/' {
		return false
	}
	for i := 0; i+1 < len(r); i++ {
		if r[i] == '/' {
			if r[i+1] == '/' {
				return false
			}
		}
		if r[i] == '.' {
			if r[i+1] == '.' {
				return false // avoid ".." path elements
			}
		}
	}
	for i := 0; i < len(r); i++ {
		if r[i] == '.' {
			prevSep := i == 0
			if i > 0 {
				prevSep = r[i-1] == '/'
			}
			nextSep := i+1 == len(r)
			if i+1 < len(r) {
				nextSep = r[i+1] == '/'
			}
			if prevSep && nextSep {
				return false // "." path element
			}
		}
	}
	return true
}

const (
	progClean   = "\u09a6\u09c7\u0996\u09be\u0993 1 + 1;\n\u09a6\u09c7\u0996\u09be\u0993 \"ok\";\n"
	progLexErr  = "\u09a6\u09c7\u0996\u09be\u0993 1;\n\u09a6\u09c7\u0996\u09be\u0993 @;\n"
	progSynErr  = "\u09a6\u09c7\u0996\u09be\u0993 1;\n\u09a6\u09c7\u0996\u09be\u0993 ;\n"
	progRunErr  = "\u09a6\u09c7\u0996\u09be\u0993 1;\n\u09a6\u09c7\u0996\u09be\u0993 x;\n\u09a6\u09c7\u0996\u09be\u0993 2;\n"
	progRunErr2 = "\u09a7\u09b0\u09bf i = 0;\n\u09af\u09a4\u0995\u09cd\u09b7\u09a3 (i < 3) {\n  \u09a6\u09c7\u0996\u09be\u0993 i;\n  i = i + 1;\n  \u09a6\u09c7\u0996\u09be\u0993 1 / 0;\n}\n\u09a6\u09c7\u0996\u09be\u0993 9;\n"
	// a string literal that opens with a line break, then a fault two lines further down
	progRunErr3 = "\u09a6\u09c7\u0996\u09be\u0993 \"\nh\";\n\u09a6\u09c7\u0996\u09be\u0993 1;\n\u09a6\u09c7\u0996\u09be\u0993 x;\n\u09a6\u09c7\u0996\u09be\u0993 2;\n"
	progInput2  = "\u09a6\u09c7\u0996\u09be\u0993 \u0987\u09a8\u09aa\u09c1\u099f();\n\u09a6\u09c7\u0996\u09be\u0993 \u0987\u09a8\u09aa\u09c1\u099f(\"50%> \");\n"
)

// VH_cli: command lines with 0-3 extra arguments and script names of n characters.
func VH_cli(nargs int, n int) {
	args := []string{"borno"}
	for i := 0; i < nargs; i++ {
		args = append(args, scriptName(n))
	}
	// the script path: missing, a readable file, or a directory of that name (exists, unreadable)
	state := verifChoice(3)
	present := state == 1
	if nargs >= 1 {
		verifAssume(usableName(args[1]))
	}
	verifSetArgs(args...)
	if state == 2 {
		verifSetFile(false, "<dir>")
	} else {
		verifSetFile(present, progClean)
	}
	verifSetStdin(0, true)
	verifRunMain()
	out, errText, status := verifProcStdout(), verifProcStderr(), verifProcExit()
	if nargs == 0 {
		// interactive mode with empty stdin: one prompt, status 0
		verifAssert("repl-on-empty-input-exits-0", status == 0)
		verifAssert("repl-on-empty-input-prompts-once", out == ">> ")
		return
	}
	if nargs > 1 {
		verifAssert("too-many-arguments-exit-64", status == 64)
		verifAssert("too-many-arguments-message", out != "" || errText != "")
		verifAssert("too-many-arguments-runs-nothing", !strings.Contains(out, "2\n"))
		return
	}
	if !endsWithBn(args[1]) {
		verifAssert("wrong-extension-exit-64", status == 64)
		verifAssert("wrong-extension-message", out != "" || errText != "")
		verifAssert("wrong-extension-runs-nothing", !strings.Contains(out, "2\n"))
		return
	}
	if !present {
		verifAssert("unreadable-file-nonzero-exit", status != 0)
		verifAssert("unreadable-file-message", errText != "")
		verifAssert("unreadable-file-runs-nothing", out == "")
		return
	}
	verifAssert("clean-script-exit-0", status == 0)
	verifAssert("clean-script-stdout", out == "2\nok\n")
	verifAssert("clean-script-empty-stderr", errText == "")
}

// VH_outcome: exit status and streams for each outcome class of a script.
func VH_outcome(class int) {
	verifSetArgs("borno", "a.bn")
	verifSetStdin(0, true)
	switch class {
	case 0:
		verifSetFile(true, progLexErr)
	case 1:
		verifSetFile(true, progSynErr)
	case 2:
		verifSetFile(true, progRunErr)
	case 4:
		verifSetFile(true, progRunErr3)
	default:
		verifSetFile(true, progRunErr2)
	}
	verifRunMain()
	out, errText, status := verifProcStdout(), verifProcStderr(), verifProcExit()
	switch class {
	case 0, 1:
		verifAssert("front-end-error-exit-65", status == 65)
		verifAssert("front-end-error-diagnosed-on-stderr", strings.Contains(errText, "[line 2]"))
		verifAssert("rejected-text-is-not-executed", out == "")
	case 2:
		verifAssert("runtime-error-exit-70", status == 70)
		verifAssert("runtime-error-stdout-up-to-the-fault", out == "1\n")
		verifAssert("runtime-error-names-its-line", strings.Contains(errText, "[line 2]"))
	case 4:
		verifAssert("runtime-error-exit-70", status == 70)
		verifAssert("runtime-error-stdout-up-to-the-fault", out == "\nh\n1\n")
		verifAssert("runtime-error-names-its-line", strings.Contains(errText, "[line 4]"))
	default:
		verifAssert("runtime-error-in-loop-exit-70", status == 70)
		verifAssert("runtime-error-in-loop-stdout-up-to-the-fault", out == "0\n")
		verifAssert("runtime-error-in-loop-names-its-line", strings.Contains(errText, "[line 5]"))
	}
}

// stdin lines: text with surrounding blanks, blanks only, empty, plain
var inputPool = []string{"  a b \t", " \t ", "", "x"}

// VH_input: two reads of stdin of nlines lines drawn from the pool, with or without a final
// newline; the kernel may hand the lines over in chunks of any size.
func VH_input(nlines int, finalNL int) {
	lines := make([]string, nlines)
	for i := 0; i < nlines; i++ {
		lines[i] = inputPool[verifChoice(len(inputPool))]
	}
	if finalNL == 0 {
		if nlines > 0 {
			// an unterminated last line exists only if it has at least one byte
			verifAssume(lines[nlines-1] != "")
		}
	}
	verifSetArgs("borno", "a.bn")
	verifSetFile(true, progInput2)
	verifSetStdinText(lines...)
	verifSetStdinFinalNewline(finalNL == 1)
	verifRunMain()
	out, errText, status := verifProcStdout(), verifProcStderr(), verifProcExit()
	if nlines >= 2 {
		// the program prints what it read: print writes the NFC form of the text
		want := norm.NFC.String(strings.TrimSpace(lines[0])) + "\n" + "50%> " + norm.NFC.String(strings.TrimSpace(lines[1])) + "\n"
		verifAssert("each-read-consumes-exactly-the-next-line", out == want)
		verifAssert("reads-succeed", status == 0 && errText == "")
	} else {
		verifAssert("reading-past-end-of-input-is-a-runtime-error", status == 70)
		if nlines == 1 {
			verifAssert("first-read-still-printed", out == norm.NFC.String(strings.TrimSpace(lines[0]))+"\n"+"50%> ")
		}
	}
}

var replPool = []string{
	"1 + 2;",                                 // bare expression: echo
	"\u09a6\u09c7\u0996\u09be\u0993 \"hi\";", // print
	"\u09a6\u09c7\u0996\u09be\u0993 @;",      // lexical error
	"1 + ;",                                  // syntax error
	"1 / 0;",                                 // runtime error
	"x;",                                     // runtime error (undefined)
	"\u09a7\u09b0\u09bf y = 5;",              // declaration: no echo
	"\u09b2\u09c7\u09a8([1, 2, 3]);",         // built-in, echo
	"\u09b2\u09c7\u09a8 = 0;",                // assignment to a built-in's name (the parser allows it): echo
	"\u09a6\u09c7\u0996\u09be\u0993 1.",      // ends in digits and a point: syntax error (the line has no newline behind it)
	"/* note *",                              // unterminated comment whose last character is '*'
	"\"abc\" * 2;", // a string that is no numeral under arithmetic: fails
	"5 - \"abc\";", // the same string again: fails on its own, so it fails after the line above too
	"\u09af\u09a4\u0995\u09cd\u09b7\u09a3 (\u09b8\u09a4\u09cd\u09af) { z; }", // a loop that only a failure ends: the line is over at its first diagnostic
	"\u09a6\u09c7\u0996\u09be\u0993 1; q = 2;", // output, then a failing assignment to an undeclared name on the same line: the output belongs to this line's response
	"7; q = 2; 8;",                        // an echo, then the same failure: nothing of this line is left over for a later one
}

// VH_repl: a session of k lines from the pool; each line's response must be what the same
// line yields as the only line of a fresh session, and the session ends with status 0.
func VH_repl(k int) {
	lines := make([]string, k)
	for i := 0; i < k; i++ {
		lines[i] = replPool[verifChoice(len(replPool))]
	}
	wantOut, wantErr := "", ""
	for i := 0; i < k; i++ {
		verifSetArgs("borno")
		verifSetStdinText(lines[i])
		verifRunMain()
		o, e := verifProcStdout(), verifProcStderr()
		verifAssert("single-line-session-exits-0", verifProcExit() == 0)
		// a one-line session prints: prompt, response, prompt
		verifAssert("single-line-session-shape", strings.HasPrefix(o, ">> ") && strings.HasSuffix(o, ">> ") && len(o) >= 6)
		if !(strings.HasPrefix(o, ">> ") && strings.HasSuffix(o, ">> ") && len(o) >= 6) {
			return
		}
		wantOut += o[:len(o)-3]
		wantErr += e
	}
	wantOut += ">> "
	verifSetArgs("borno")
	verifSetStdinText(lines...)
	verifRunMain()
	verifAssert("session-exits-0", verifProcExit() == 0)
	verifAssert("every-line-responds-as-in-a-fresh-session", verifProcStdout() == wantOut)
	verifAssert("every-line-diagnosed-as-in-a-fresh-session", verifProcStderr() == wantErr)
}

// VH_replEcho: a bare expression statement echoes its value in interactive mode and not in a script.
func VH_replEcho() {
	verifSetArgs("borno")
	verifSetStdinText("1 + 2;", "\u09a7\u09b0\u09bf z = 4;", "\"s\";")
	verifRunMain()
	verifAssert("repl-echoes-expression-values", verifProcStdout() == ">> 3\n>> >> s\n>> ")
	verifAssert("repl-echo-exit-0", verifProcExit() == 0)
	// values whose text holds a '%' (a string, a string inside an array, a remainder)
	verifSetArgs("borno")
	verifSetStdinText("\"50%\";", "[1, \"100% done\"];", "7 % 4;", "\"%d %s %v\";")
	verifRunMain()
	verifAssert("repl-echoes-expression-values", verifProcStdout() == ">> 50%\n>> [1 100% done]\n>> 3\n>> %d %s %v\n>> ")
	verifAssert("repl-echo-exit-0", verifProcExit() == 0 && verifProcStderr() == "")
	verifSetArgs("borno", "a.bn")
	verifSetFile(true, "1 + 2;\n")
	verifSetStdin(0, true)
	verifRunMain()
	verifAssert("script-does-not-echo", verifProcStdout() == "" && verifProcExit() == 0)
}

// VH_replRepeat: state that builds up over a session — the same line n times, then any line:
// the last response must still be what a fresh session gives.
func VH_replRepeat(n int) {
	rep := replPool[verifChoice(len(replPool))]
	last := replPool[verifChoice(len(replPool))]
	verifSetArgs("borno")
	verifSetStdinText(last)
	verifRunMain()
	fresh, freshErr := verifProcStdout(), verifProcStderr()
	verifSetArgs("borno")
	verifSetStdinText(rep)
	verifRunMain()
	one, oneErr := verifProcStdout(), verifProcStderr()
	if !(strings.HasSuffix(one, ">> ") && strings.HasSuffix(fresh, ">> ")) {
		verifAssert("single-line-session-shape", false)
		return
	}
	wantOut, wantErr := "", ""
	lines := make([]string, 0, n+1)
	for i := 0; i < n; i++ {
		lines = append(lines, rep)
		wantOut += one[:len(one)-3]
		wantErr += oneErr
	}
	lines = append(lines, last)
	wantOut += fresh
	wantErr += freshErr
	verifSetArgs("borno")
	verifSetStdinText(lines...)
	verifRunMain()
	verifAssert("session-exits-0", verifProcExit() == 0)
	verifAssert("every-line-responds-as-in-a-fresh-session", verifProcStdout() == wantOut)
	verifAssert("every-line-diagnosed-as-in-a-fresh-session", verifProcStderr() == wantErr)
}

// classifyPool: one-line statements; kind 0 = runs cleanly (prints out), 1 = lexical or syntax
// error, 2 = runtime error.
var classifyPool = []struct {
	text string
	kind int
	out  string
}{
	{"\u09a6\u09c7\u0996\u09be\u0993 1;", 0, "1\n"},
	{"\u09a6\u09c7\u0996\u09be\u0993 \"s\";", 0, "s\n"},
	{"{ \u09a7\u09b0\u09bf v = 2; }", 0, ""},
	{"\u09a6\u09c7\u0996\u09be\u0993 @;", 1, ""},
	{"\u09a6\u09c7\u0996\u09be\u0993 " + strings.Repeat("9", 400) + ";", 1, ""}, // a literal no double can hold
	{"\u09a6\u09c7\u0996\u09be\u0993 2" + strings.Repeat("\u09e6", 308) + ";", 1, ""},
	{"\u09a6\u09c7\u0996\u09be\u0993 ;", 1, ""},
	{"\u09a6\u09c7\u0996\u09be\u0993 \"open;", 1, ""},
	{"/* open", 1, ""},
	{"\u09a6\u09c7\u0996\u09be\u0993 x;", 2, ""},
	{"\u09a6\u09c7\u0996\u09be\u0993 1 / 0;", 2, ""},
	{"\u09a6\u09c7\u0996\u09be\u0993 -\"50%\";", 2, ""},
	{"\u09ab\u09be\u0982\u09b6\u09a8 big(" + manyParams(256) + ") { }", 1, ""}, // more than 255 parameters
	{"\u09ab\u09be\u0982\u09b6\u09a8 ok(" + manyParams(255) + ") { }", 0, ""},
	// a NUL character is an ordinary character inside a string and inside a comment
	{"\u09a6\u09c7\u0996\u09be\u0993 \"a\x00b\";", 0, "a\x00b\n"},
	{"\u09a6\u09c7\u0996\u09be\u0993 7; // c\x00 \u09a6\u09c7\u0996\u09be\u0993 5;", 0, "7\n"},
}

// VH_classify (C19): a script of k lines drawn from the pool. Status 65 and nothing executed iff
// some line has a lexical or syntax error (wherever it stands); otherwise status 70 and the output
// up to the fault iff a line fails at run time; otherwise status 0, empty stderr, all output.
func VH_classify(k int) {
	src := ""
	front, rt := false, -1
	out := ""
	for i := 0; i < k; i++ {
		p := classifyPool[verifChoice(len(classifyPool))]
		src += p.text + "\n"
		switch p.kind {
		case 1:
			front = true
		case 2:
			if rt < 0 {
				rt = i
			}
		default:
			if rt < 0 {
				out += p.out
			}
		}
	}
	verifSetArgs("borno", "a.bn")
	verifSetFile(true, src)
	verifSetStdin(0, true)
	verifRunMain()
	gotOut, gotErr, status := verifProcStdout(), verifProcStderr(), verifProcExit()
	switch {
	case front:
		verifAssert("front-end-error-exit-65", status == 65)
		verifAssert("front-end-error-diagnosed-on-stderr", strings.Contains(gotErr, "[line "))
		verifAssert("rejected-text-is-not-executed", gotOut == "")
	case rt >= 0:
		verifAssert("runtime-error-exit-70", status == 70)
		verifAssert("runtime-error-stdout-up-to-the-fault", gotOut == out)
		verifAssert("runtime-error-names-its-line", strings.Contains(gotErr, fmt.Sprintf("[line %d]", rt+1)))
	default:
		verifAssert("clean-run-exit-0", status == 0)
		verifAssert("clean-run-empty-stderr", gotErr == "")
		verifAssert("clean-run-stdout", gotOut == out)
	}
}

// originTexts: texts NFC would rewrite (cf. nfcTexts of the interpreter harness) and plain ones.
var originTexts = []string{"cafe\u0301", "k\u09df", "\u09ac\u09dc", "\u0995\u09c7\u09be", "abc", "\u0995\u09cb", "caf\u00e9"}

// originTexts2: texts that cannot be property names: a replacement character, a blank inside,
// a percent sign, a numeral.
var originTexts2 = []string{"a\ufffdb", "x y", "100%", "\u09e7\u09e8", "\ufffd"}

// VH_inputOrigin2 (C16): as VH_inputOrigin for texts that are not identifiers: compared with
// the literal, concatenated with the empty string, shown inside an array, stored in a property.
func VH_inputOrigin2() {
	t := originTexts2[verifChoice(len(originTexts2))]
	src := "\u09a7\u09b0\u09bf a = \u0987\u09a8\u09aa\u09c1\u099f();\n" +
		"\u09a6\u09c7\u0996\u09be\u0993 a == \"" + t + "\";\n" +
		"\u09a6\u09c7\u0996\u09be\u0993 (a + \"\") == a;\n" +
		"\u09a6\u09c7\u0996\u09be\u0993 [a, \"" + t + "\"];\n" +
		"\u09a7\u09b0\u09bf o = {};\no.k = a;\n" +
		"\u09a6\u09c7\u0996\u09be\u0993 o.k == \"" + t + "\";\n" +
		"\u09a6\u09c7\u0996\u09be\u0993 o;\n"
	verifSetArgs("borno", "a.bn")
	verifSetFile(true, src)
	verifSetStdinText(t)
	verifRunMain()
	verifAssert("input-and-literal-program-runs", verifProcExit() == 0 && verifProcStderr() == "")
	verifAssert("same-text-same-string-whatever-its-origin", verifProcStdout() == "true\ntrue\n["+t+" "+t+"]\ntrue\nmap[k:"+t+"]\n")
}

// VH_inputOrigin (C16): the same text arriving from ইনপুট and written as a literal is the same
// string: equal under ==, the same under + and as a property key.
func VH_inputOrigin() {
	t := originTexts[verifChoice(len(originTexts))]
	src := "\u09a7\u09b0\u09bf a = \u0987\u09a8\u09aa\u09c1\u099f();\n" +
		"\u09a6\u09c7\u0996\u09be\u0993 a == \"" + t + "\";\n" +
		"\u09a6\u09c7\u0996\u09be\u0993 (a + \"|\") == (\"" + t + "\" + \"|\");\n" +
		"\u09a7\u09b0\u09bf o = {" + t + ": 1};\n" +
		"\u09a6\u09c7\u0996\u09be\u0993 \u0985\u09ac\u09cd\u099c\u09c7\u0995\u09cd\u099f_\u0995\u09bf(o)[0] == a;\n" +
		"\u09a6\u09c7\u0996\u09be\u0993 \u0985\u09ac\u09cd\u099c\u09c7\u0995\u09cd\u099f_\u0995\u09bf(o)[0] == \"" + t + "\";\n"
	verifSetArgs("borno", "a.bn")
	verifSetFile(true, src)
	verifSetStdinText(t)
	verifRunMain()
	verifAssert("input-and-literal-program-runs", verifProcExit() == 0 && verifProcStderr() == "")
	verifAssert("same-text-same-string-whatever-its-origin", verifProcStdout() == "true\ntrue\ntrue\ntrue\n")
}

// VH_replLong (C20): a session whose first line is nbytes bytes long (a failing statement
// followed by a comment that pads the line and ends in text that would print if it were taken
// for a line of its own), then two lines from the pool. Every line gets exactly one response.
func VH_replLong(nbytes int) {
	head := "x; // "
	tail := " \u09a6\u09c7\u0996\u09be\u0993 99;"
	pad := nbytes - len(head) - len(tail)
	if pad < 0 {
		verifAssume(false)
	}
	long := head + strings.Repeat("-", pad) + tail
	// followers: a bare expression (echo), a lexical error, a runtime error
	follow := []int{0, 2, 5}
	lines := []string{long, replPool[follow[verifChoice(3)]], replPool[follow[verifChoice(3)]]}
	wantOut, wantErr := "", ""
	for i := 0; i < len(lines); i++ {
		verifSetArgs("borno")
		verifSetStdinText(lines[i])
		verifRunMain()
		o, e := verifProcStdout(), verifProcStderr()
		verifAssert("single-line-session-exits-0", verifProcExit() == 0)
		verifAssert("single-line-session-shape", strings.HasPrefix(o, ">> ") && strings.HasSuffix(o, ">> ") && len(o) >= 6)
		if !(strings.HasPrefix(o, ">> ") && strings.HasSuffix(o, ">> ") && len(o) >= 6) {
			return
		}
		if i == 0 {
			// the long line is one failing statement and a comment: one diagnostic, nothing printed
			verifAssert("long-line-gets-one-response", o == ">> >> " && e != "")
		}
		wantOut += o[:len(o)-3]
		wantErr += e
	}
	wantOut += ">> "
	verifSetArgs("borno")
	verifSetStdinText(lines...)
	verifRunMain()
	verifAssert("session-exits-0", verifProcExit() == 0)
	verifAssert("every-line-responds-as-in-a-fresh-session", verifProcStdout() == wantOut)
	verifAssert("every-line-diagnosed-as-in-a-fresh-session", verifProcStderr() == wantErr)
}

// crlfPool: stdin lines as a CRLF text delivers them (the line feed is added by the stdin
// model; the carriage return is part of the line and is a blank that ইনপুট trims).
var crlfPool = []string{"a\r", " b \r", "\r", "c"}

// VH_inputCRLF (C13/C19): two reads of a CRLF stdin. The program's output depends on the bytes
// of stdin only — not on how the operating system cuts them into reads (every cut is explored
// when the reader's splitting is the repository's own code).
func VH_inputCRLF(nlines int) {
	lines := make([]string, nlines)
	for i := 0; i < nlines; i++ {
		lines[i] = crlfPool[verifChoice(len(crlfPool))]
	}
	verifSetArgs("borno", "a.bn")
	verifSetFile(true, progInput2)
	verifSetStdinText(lines...)
	verifSetStdinFinalNewline(true)
	verifRunMain()
	out, errText, status := verifProcStdout(), verifProcStderr(), verifProcExit()
	want := norm.NFC.String(strings.TrimSpace(lines[0])) + "\n" + "50%> " + norm.NFC.String(strings.TrimSpace(lines[1])) + "\n"
	verifAssert("each-read-consumes-exactly-the-next-line", out == want)
	verifAssert("reads-succeed", status == 0 && errText == "")
}

// VH_inputLong (C19): a stdin line of nbytes bytes (around the 4096-byte buffer of a buffered
// reader) is still one line: the first ইনপুট returns all of it, the second the next line.
func VH_inputLong(nbytes int) {
	long := strings.Repeat("x", nbytes)
	verifSetArgs("borno", "a.bn")
	verifSetFile(true, progInput2)
	verifSetStdinText(long, " second ")
	verifSetStdinFinalNewline(true)
	verifRunMain()
	verifAssert("each-read-consumes-exactly-the-next-line", verifProcStdout() == long+"\n50%> second\n")
	verifAssert("reads-succeed", verifProcExit() == 0 && verifProcStderr() == "")
}

func manyParams(n int) string {
	out := ""
	for i := 0; i < n; i++ {
		if i > 0 {
			out += ", "
		}
		out += fmt.Sprintf("p%d", i)
	}
	return out
}

// VH_replDeep (C20): a session whose first lines each define a recursive function, recurse
// `depth` calls deep and fail at the bottom (division by zero), `times` times over; then lines
// that use only literals and built-ins. However deep and however often earlier lines failed,
// the later lines respond as in a fresh session.
func VH_replDeep(depth int, times int) {
	failing := fmt.Sprintf("\u09ab\u09be\u0982\u09b6\u09a8 f(n) { \u09af\u09a6\u09bf (n == 0) { \u09ab\u09c7\u09b0\u09a4 1/0; } \u09ab\u09c7\u09b0\u09a4 f(n-1); } f(%d);", depth)
	lines := []string{}
	for i := 0; i < times; i++ {
		lines = append(lines, failing)
	}
	lines = append(lines, replPool[7], replPool[0], replPool[1])
	verifSetArgs("borno")
	verifSetStdinText(lines...)
	verifRunMain()
	want := ""
	for i := 0; i < times; i++ {
		want += ">> "
	}
	want += ">> 3\n>> 3\n>> hi\n>> "
	verifAssert("session-exits-0", verifProcExit() == 0)
	verifAssert("every-line-responds-as-in-a-fresh-session", verifProcStdout() == want)
}

// VH_scriptLong (C18 / C19): a script longer than one read buffer whose text has a multi-byte
// character beginning at byte offset off (around 4096, 8192): the program prints its string
// whole, and the same with one more blank before the first token — however the file is read.
func VH_scriptLong(off int) {
	kw := "\u09a6\u09c7\u0996\u09be\u0993"
	body := strings.Repeat("a", off-len(kw)-2) + "\u0995\u09cd\u09b7\u09cb" + strings.Repeat("b", 20)
	blanks := verifChoice(3)
	src := strings.Repeat(" ", blanks) + kw + " \"" + body + "\";\n" + kw + " 1;\n"
	verifSetArgs("borno", "a.bn")
	verifSetFile(true, src)
	verifSetStdinText()
	verifRunMain()
	verifAssert("clean-script-exit-0", verifProcExit() == 0 && verifProcStderr() == "")
	verifAssert("layout-does-not-change-what-a-long-script-prints", verifProcStdout() == body+"\n1\n")
}
