package lexer

import (
	"fmt"

	"github.com/ah-naf/borno/utils"
)

// VH_selftest: translator validation. Concrete sources (the repo's own scanner test inputs
// and some extra shapes) are scanned by the real ScanTokens, once from SSA inside the
// symbolic executor and once natively; the emitted records must be identical.
func VH_selftest() {
	srcs := []string{
		"",
		"ধরি x = ১২.৫; দেখাও x;",
		"ফাংশন add(a, b) { ফেরত a + b; }",
		"যদি (x >= 10) { দেখাও \"big\"; } নাহয় { দেখাও \"small\"; }",
		"যতক্ষণ (i < 3) { i = i + 1; থামো; চালিয়ে_যাও; }",
		"a এবং b বা c && d || e",
		"( ) { } [ ] , . - + ; * / % ** ^ ~ & | ! != = == < <= << > >= >> :",
		"12 3.5 4. .5 1.2.3 ০১",
		"// comment\nx /* multi\nline */ y\n\"str\ning\" z",
		"\"unterminated",
		"/* unterminated",
		"@ # $ x_1 কাজ",
		"nil সত্য মিথ্যা ফর",
		"1e400 99999999999999999999999999999999999999999999999999999999999999999999999999999999999999999999999999999999999999999999999999999999999999999999999999999999999999999999999999999999999999999999999999999999999999999999999999999999999999999999999999999999999999999999999999999999999999999999999999999999999999999999999",
	}
	for _, src := range srcs {
		utils.HadError = false
		toks := NewScanner([]rune(src)).ScanTokens()
		for _, t := range toks {
			lit := "-"
			switch v := t.Literal.(type) {
			case float64:
				lit = fmt.Sprint(v)
			case []rune:
				lit = "r:" + string(v)
			case string:
				lit = "s:" + v
			}
			verifRecord(fmt.Sprintf("%d|%s|%d|%s", int(t.Type), t.Lexeme, t.Line, lit))
		}
		verifRecord(fmt.Sprintf("flag=%v diagnostics=%d", utils.HadError, verifCountStderr()))
		verifClearEvents()
	}
}

func verifCountStderr() int {
	n := 0
	for i := 0; i < verifNumEvents(); i++ {
		if verifEventKind(i) == 2 {
			n++
		}
	}
	return n
}
