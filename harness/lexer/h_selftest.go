package lexer

import (
	"fmt"

	"github.com/ah-naf/borno/utils"
)

// VH_selftest: translator validation. Concrete sources (the repo's own scanner test inputs
// and some extra shapes) are scanned by the real ScanTokens, once from SSA inside the
// symbolic executor and once natively; the emitted records must be identical.
func VH_selftest() {
	srcs := []string{
		"",
		"\u09a7\u09b0\u09bf x = \u09e7\u09e8.\u09eb; \u09a6\u09c7\u0996\u09be\u0993 x;",
		"\u09ab\u09be\u0982\u09b6\u09a8 add(a, b) { \u09ab\u09c7\u09b0\u09a4 a + b; }",
		"\u09af\u09a6\u09bf (x >= 10) { \u09a6\u09c7\u0996\u09be\u0993 \"big\"; } \u09a8\u09be\u09b9\u09df { \u09a6\u09c7\u0996\u09be\u0993 \"small\"; }",
		"\u09af\u09a4\u0995\u09cd\u09b7\u09a3 (i < 3) { i = i + 1; \u09a5\u09be\u09ae\u09cb; \u099a\u09be\u09b2\u09bf\u09df\u09c7_\u09af\u09be\u0993; }",
		"a \u098f\u09ac\u0982 b \u09ac\u09be c && d || e",
		"( ) { } [ ] , . - + ; * / % ** ^ ~ & | ! != = == < <= << > >= >> :",
		"12 3.5 4. .5 1.2.3 \u09e6\u09e7",
		"// comment\nx /* multi\nline */ y\n\"str\ning\" z",
		"\"unterminated",
		"/* unterminated",
		"@ # $ x_1 \u0995\u09be\u099c",
		"nil \u09b8\u09a4\u09cd\u09af \u09ae\u09bf\u09a5\u09cd\u09af\u09be \u09ab\u09b0",
		"1e400 99999999999999999999999999999999999999999999999999999999999999999999999999999999999999999999999999999999999999999999999999999999999999999999999999999999999999999999999999999999999999999999999999999999999999999999999999999999999999999999999999999999999999999999999999999999999999999999999999999999999999999999999",
	}
	for _, src := range srcs {
		utils.HadError = false
		toks := NewScanner([]rune(src)).ScanTokens()
		for _, t := range toks {
			lit := "-"
			switch v := t.Literal.(type) {
			case float64:
				lit = fmt.Sprint(v)
			case []rune:
				lit = "r:" + string(v)
			case string:
				lit = "s:" + v
			}
			verifRecord(fmt.Sprintf("%d|%s|%d|%s", int(t.Type), t.Lexeme, t.Line, lit))
		}
		verifRecord(fmt.Sprintf("flag=%v diagnostics=%d", utils.HadError, verifCountStderr()))
		verifClearEvents()
	}
}

func verifCountStderr() int {
	n := 0
	for i := 0; i < verifNumEvents(); i++ {
		if verifEventKind(i) == 2 {
			n++
		}
	}
	return n
}
