package lexer

// C18 (a), (b): metamorphic invariances of the lexer, as relational harnesses on the real
// ScanTokens / scanToken.

import (
	"github.com/ah-naf/borno/token"
	"github.com/ah-naf/borno/utils"
)

func countErr() int {
	n := 0
	for i := 0; i < verifNumEvents(); i++ {
		if verifEventKind(i) == 2 {
			n++
		}
	}
	return n
}

func sameLiteral(a, b interface{}) bool {
	switch x := a.(type) {
	case nil:
		return b == nil
	case float64:
		y, ok := b.(float64)
		return ok && (x == y || (x != x && y != y))
	case []rune:
		y, ok := b.([]rune)
		return ok && string(x) == string(y)
	case string:
		y, ok := b.(string)
		return ok && x == y
	}
	return false
}

// VH_blank: inserting a blank, a line break or a comment at a chunk boundary changes no
// token (type, lexeme, literal), only line numbers — by exactly the inserted line breaks.
func VH_blank(n int) {
	src := make([]rune, n)
	for i := 0; i < n; i++ {
		src[i] = verifNondetRune()
	}
	// a boundary: the end of the k-th chunk (k chosen by forking), or the very beginning
	pos := 0
	k := verifChoice(n + 1)
	inLineComment := false
	for j := 0; j < k; j++ {
		if pos >= n {
			verifAssume(false)
		}
		end, _, _, diag, _, _ := specLex(src, pos)
		inLineComment = false
		if src[pos] == 47 {
			if pos+1 < n {
				inLineComment = src[pos+1] == 47
			}
		}
		if diag {
			// an unterminated string or comment is not a token: text inserted after it is
			// swallowed or terminates it, which is outside "between tokens"
			verifAssume(end-pos == 1)
		}
		pos = end
	}
	var ins []rune
	nl := 0
	switch verifChoice(11) {
	case 7:
		ins = []rune{47, 42, 42, 42, 47} // /***/
	case 8:
		ins = []rune{47, 42, 42, 32, 120, 32, 42, 42, 47} // /** x **/
	case 9:
		ins, nl = []rune{47, 42, 42, 10, 42, 42, 42, 47}, 1 // /**\n***/
	case 10:
		ins = []rune{47, 42, 47, 42, 47} // /*/*/
	case 0:
		ins = []rune{32}
	case 1:
		ins = []rune{9}
	case 2:
		ins = []rune{13}
	case 3:
		ins, nl = []rune{10}, 1
	case 4:
		ins, nl = []rune{47, 47, 120, 10}, 1
	case 5:
		ins = []rune{47, 42, 120, 42, 47}
	default:
		ins, nl = []rune{47, 42, 10, 42, 47}, 1
	}
	if ins[0] == 47 {
		// the end of a line comment is still inside that comment (it runs to the newline):
		// comment text inserted there is comment content, not layout between tokens
		verifAssume(!inLineComment)
		if pos > 0 {
			// a comment opener glued to a preceding '/' would itself become part of another
			// comment opener: the insertion must stay between tokens
			verifAssume(src[pos-1] != 47)
		}
	}
	src2 := make([]rune, 0, n+len(ins))
	src2 = append(src2, src[:pos]...)
	src2 = append(src2, ins...)
	src2 = append(src2, src[pos:]...)
	utils.HadError = false
	verifClearEvents()
	t1 := NewScanner(src).ScanTokens()
	e1, f1 := countErr(), utils.HadError
	utils.HadError = false
	verifClearEvents()
	t2 := NewScanner(src2).ScanTokens()
	e2, f2 := countErr(), utils.HadError
	verifAssert("layout-same-diagnostics", e1 == e2 && f1 == f2)
	verifAssert("layout-same-token-count", len(t1) == len(t2))
	if len(t1) != len(t2) {
		return
	}
	// tokens that end at or before the insertion point keep their line; later ones move by nl
	c := 0
	idx := 0
	for c < n {
		end, tok, _, _, _, _ := specLex(src, c)
		if tok {
			if idx < len(t1)-1 {
				verifAssert("layout-same-type", t1[idx].Type == t2[idx].Type)
				verifAssert("layout-same-lexeme", t1[idx].Lexeme == t2[idx].Lexeme)
				verifAssert("layout-same-literal", sameLiteral(t1[idx].Literal, t2[idx].Literal))
				if t1[idx].Type != token.STRING {
					if end <= pos {
						verifAssert("layout-line-before-insertion", t2[idx].Line == t1[idx].Line)
					} else {
						verifAssert("layout-line-after-insertion", t2[idx].Line == t1[idx].Line+nl)
					}
				}
				idx++
			}
		}
		c = end
	}
	verifAssert("layout-eof-line", t2[len(t2)-1].Line == t1[len(t1)-1].Line+nl)
}

func otherScript(r rune) rune {
	if r >= 48 && r <= 57 {
		return r - 48 + 0x9E6
	}
	if r >= 0x9E6 && r <= 0x9EF {
		return r - 0x9E6 + 48
	}
	return r
}

// VH_swap: replacing digits by their counterparts in the other script (any subset of
// positions) changes neither the token types nor the value a numeric literal denotes.
func VH_swap(n int) {
	src := make([]rune, n)
	src2 := make([]rune, n)
	for i := 0; i < n; i++ {
		src[i] = verifNondetRune()
		src2[i] = src[i]
		if verifNondetBool() {
			src2[i] = otherScript(src[i])
		}
	}
	// the swap is only applied inside numeric literals: the first chunk must be a number
	end, tok, ty, _, _, _ := specLex(src, 0)
	verifAssume(tok && ty == token.NUMBER)
	for i := end; i < n; i++ {
		verifAssume(src2[i] == src[i])
	}
	utils.HadError = false
	verifClearEvents()
	s1 := NewScanner(src)
	s1.scanToken()
	e1 := countErr()
	utils.HadError = false
	verifClearEvents()
	s2 := NewScanner(src2)
	s2.scanToken()
	e2 := countErr()
	verifAssert("swap-same-extent", s1.current == s2.current)
	verifAssert("swap-same-diagnostics", e1 == e2)
	verifAssert("swap-same-token-count", len(s1.tokens) == len(s2.tokens))
	if len(s1.tokens) == 1 {
		if len(s2.tokens) == 1 {
			verifAssert("swap-same-type", s1.tokens[0].Type == s2.tokens[0].Type)
			verifAssert("swap-same-value", sameLiteral(s1.tokens[0].Literal, s2.tokens[0].Literal))
		}
	}
}
