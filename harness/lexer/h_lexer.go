package lexer

// Harnesses for C09 / C10 / C18(a-c) / C08 (lexical part): the real scanToken / ScanTokens
// against the declarative tokeniser specification of DESIGN Appendix E.1.
//
// Keywords are written as code-point escapes (A.2): the documentation and the lexer use the
// precomposed U+09DF, which NFC would decompose.

import (
	"strconv"
	"unicode"

	"golang.org/x/text/unicode/norm"

	"github.com/ah-naf/borno/token"
	"github.com/ah-naf/borno/utils"
)

func sDigit(r rune) bool { return (r >= 48 && r <= 57) || (r >= 0x9E6 && r <= 0x9EF) }
func sAlpha(r rune) bool { return unicode.IsLetter(r) || unicode.IsMark(r) || r == 95 }
func sAlnum(r rune) bool { return sAlpha(r) || sDigit(r) }

func sIs(src []rune, a, b int, w string) bool {
	k := []rune(w)
	if b-a != len(k) {
		return false
	}
	for i := 0; i < len(k); i++ {
		if src[a+i] != k[i] {
			return false
		}
	}
	return true
}

func sKeyword(src []rune, a, b int) token.TokenType {
	if sIs(src, a, b, "\u09ab\u09be\u0982\u09b6\u09a8") {
		return token.FUN
	}
	if sIs(src, a, b, "\u09a7\u09b0\u09bf") {
		return token.VAR
	}
	if sIs(src, a, b, "\u09ab\u09b0") {
		return token.FOR
	}
	if sIs(src, a, b, "\u09af\u09a6\u09bf") {
		return token.IF
	}
	if sIs(src, a, b, "\u09a8\u09be\u09b9\u09df") {
		return token.ELSE
	}
	if sIs(src, a, b, "\u09af\u09a4\u0995\u09cd\u09b7\u09a3") {
		return token.WHILE
	}
	if sIs(src, a, b, "\u09b8\u09a4\u09cd\u09af") {
		return token.TRUE
	}
	if sIs(src, a, b, "\u09ae\u09bf\u09a5\u09cd\u09af\u09be") {
		return token.FALSE
	}
	if sIs(src, a, b, "nil") {
		return token.NIL
	}
	if sIs(src, a, b, "\u09a6\u09c7\u0996\u09be\u0993") {
		return token.PRINT
	}
	if sIs(src, a, b, "\u09ab\u09c7\u09b0\u09a4") {
		return token.RETURN
	}
	if sIs(src, a, b, "\u09a5\u09be\u09ae\u09cb") {
		return token.BREAK
	}
	if sIs(src, a, b, "\u099a\u09be\u09b2\u09bf\u09df\u09c7_\u09af\u09be\u0993") {
		return token.CONTINUE
	}
	if sIs(src, a, b, "\u098f\u09ac\u0982") {
		return token.LOGICAL_AND
	}
	if sIs(src, a, b, "\u09ac\u09be") {
		return token.LOGICAL_OR
	}
	return token.IDENTIFIER
}

func sNL(src []rune, a, b int) int {
	c := 0
	for i := a; i < b; i++ {
		if src[i] == 10 {
			c++
		}
	}
	return c
}

func sTwo(nx, second rune, c int, t2, t1 token.TokenType) (int, bool, token.TokenType, bool, int, int) {
	if nx == second {
		return c + 2, true, t2, false, 0, 0
	}
	return c + 1, true, t1, false, 0, 0
}

// specLex (E.1): the chunk of src that starts at c. Returns its end, whether it is a token
// and of which type, whether it is diagnosed, and for strings the value range.
func specLex(src []rune, c int) (end int, tok bool, ty token.TokenType, diag bool, vlo int, vhi int) {
	n := len(src)
	r := src[c]
	var nx rune = -1
	if c+1 < n {
		nx = src[c+1]
	}
	switch r {
	case 40:
		return c + 1, true, token.LEFT_PAREN, false, 0, 0
	case 41:
		return c + 1, true, token.RIGHT_PAREN, false, 0, 0
	case 123:
		return c + 1, true, token.LEFT_BRACE, false, 0, 0
	case 125:
		return c + 1, true, token.RIGHT_BRACE, false, 0, 0
	case 91:
		return c + 1, true, token.LEFT_BRACKET, false, 0, 0
	case 93:
		return c + 1, true, token.RIGHT_BRACKET, false, 0, 0
	case 44:
		return c + 1, true, token.COMMA, false, 0, 0
	case 46:
		return c + 1, true, token.DOT, false, 0, 0
	case 45:
		return c + 1, true, token.MINUS, false, 0, 0
	case 58:
		return c + 1, true, token.COLON, false, 0, 0
	case 43:
		return c + 1, true, token.PLUS, false, 0, 0
	case 59:
		return c + 1, true, token.SEMICOLON, false, 0, 0
	case 94:
		return c + 1, true, token.XOR, false, 0, 0
	case 126:
		return c + 1, true, token.NOT, false, 0, 0
	case 37:
		return c + 1, true, token.MODULO, false, 0, 0
	case 124:
		return sTwo(nx, 124, c, token.LOGICAL_OR, token.OR)
	case 38:
		return sTwo(nx, 38, c, token.LOGICAL_AND, token.AND)
	case 42:
		return sTwo(nx, 42, c, token.POWER, token.STAR)
	case 33:
		return sTwo(nx, 61, c, token.BANG_EQUAL, token.BANG)
	case 61:
		return sTwo(nx, 61, c, token.EQUAL_EQUAL, token.EQUAL)
	case 60:
		if nx == 61 {
			return c + 2, true, token.LESS_EQUAL, false, 0, 0
		}
		if nx == 60 {
			return c + 2, true, token.LEFT_SHIFT, false, 0, 0
		}
		return c + 1, true, token.LESS, false, 0, 0
	case 62:
		if nx == 61 {
			return c + 2, true, token.GREATER_EQUAL, false, 0, 0
		}
		if nx == 62 {
			return c + 2, true, token.RIGHT_SHIFT, false, 0, 0
		}
		return c + 1, true, token.GREATER, false, 0, 0
	case 47:
		if nx == 47 {
			j := c + 2
			for j < n {
				if src[j] == 10 {
					break
				}
				j++
			}
			return j, false, 0, false, 0, 0
		}
		if nx == 42 {
			for j := c + 2; j+1 < n; j++ {
				if src[j] == 42 {
					if src[j+1] == 47 {
						return j + 2, false, 0, false, 0, 0
					}
				}
			}
			return n, false, 0, true, 0, 0
		}
		return c + 1, true, token.SLASH, false, 0, 0
	case 32, 13, 9, 10:
		return c + 1, false, 0, false, 0, 0
	case 34:
		for j := c + 1; j < n; j++ {
			if src[j] == 34 {
				return j + 1, true, token.STRING, false, c + 1, j
			}
		}
		return n, false, 0, true, 0, 0
	}
	if sDigit(r) {
		i := c
		for i < n {
			if !sDigit(src[i]) {
				break
			}
			i++
		}
		if i+1 < n {
			if src[i] == 46 {
				if sDigit(src[i+1]) {
					i++
					for i < n {
						if !sDigit(src[i]) {
							break
						}
						i++
					}
				}
			}
		}
		return i, true, token.NUMBER, false, 0, 0
	}
	if sAlpha(r) {
		i := c
		for i < n {
			if !sAlnum(src[i]) {
				break
			}
			i++
		}
		return i, true, sKeyword(src, c, i), false, 0, 0
	}
	return c + 1, false, 0, true, 0, 0
}

func sDigitValue(r rune) rune {
	if r >= 0x9E6 && r <= 0x9EF {
		return r - 0x9E6 + 48
	}
	return r
}

// VH_step: one call of the real scanToken() from position c of an n-rune source with an
// arbitrary current line, against specLex.
func VH_step(n int, c int) {
	src := make([]rune, n)
	for i := 0; i < n; i++ {
		src[i] = verifNondetRune()
	}
	stepCheck(src, c)
}

// specKeywordTexts: the 15 keywords (E.1), by code point.
var specKeywordTexts = []string{
	"\u09ab\u09be\u0982\u09b6\u09a8", "\u09a7\u09b0\u09bf", "\u09ab\u09b0", "\u09af\u09a6\u09bf", "\u09a8\u09be\u09b9\u09df", "\u09af\u09a4\u0995\u09cd\u09b7\u09a3", "\u09b8\u09a4\u09cd\u09af", "\u09ae\u09bf\u09a5\u09cd\u09af\u09be", "nil", "\u09a6\u09c7\u0996\u09be\u0993", "\u09ab\u09c7\u09b0\u09a4", "\u09a5\u09be\u09ae\u09cb", "\u099a\u09be\u09b2\u09bf\u09df\u09c7_\u09af\u09be\u0993", "\u098f\u09ac\u0982", "\u09ac\u09be",
}

// VH_kwNear (C09): "a word is a keyword exactly when it equals one of the 15 keywords", decided
// in the neighbourhood of every keyword (the all-symbolic VH_step does not reach words longer
// than its bound). mode 0: keyword ki with the code point at one position replaced by an
// arbitrary code point, followed by an arbitrary code point; mode 1 / 2: the canonically
// equivalent NFD / NFC spelling of the keyword (a different code point sequence when it differs
// at all — then it is an identifier), followed by an arbitrary code point.
func VH_kwNear(ki int, mode int) {
	kw := []rune(specKeywordTexts[ki])
	var word []rune
	switch mode {
	case 0:
		word = append(word, kw...)
		word[verifChoice(len(kw))] = verifNondetRune()
	case 1:
		word = []rune(norm.NFD.String(string(kw)))
	case 3:
		// the exact keyword with one more arbitrary code point before the arbitrary last one:
		// a longer word that merely begins with a keyword is an identifier
		word = append(word, kw...)
		word = append(word, verifNondetRune())
	case 4:
		// the exact keyword followed by one or two more word characters from a small pool, then
		// a blank: concrete text throughout, for scanners that work on the bytes of the word
		pool := []rune{'x', '_', '7', '\u0995', '\u09e7', '\u09be', '\u09cd'}
		word = append(word, kw...)
		word = append(word, pool[verifChoice(len(pool))])
		if verifChoice(2) == 1 {
			word = append(word, pool[verifChoice(len(pool))])
		}
		stepCheck(append(word, ' '), 0)
		return
	default:
		word = []rune(norm.NFC.String(string(kw)))
	}
	src := append(word, verifNondetRune())
	stepCheck(src, 0)
}

func stepCheck(src []rune, c int) {
	n := len(src)
	line0 := verifNondetInt(1, 100000)
	s := NewScanner(src)
	s.start = c
	s.current = c
	s.line = line0
	utils.HadError = false
	s.scanToken()
	nerr := 0
	for i := 0; i < verifNumEvents(); i++ {
		if verifEventKind(i) == 2 {
			nerr++
		}
	}
	end, tok, ty, diag, vlo, vhi := specLex(src, c)
	verifAssert("end", s.current == end)
	verifAssert("progress", s.current > c)
	verifAssert("in-bounds", s.current <= n)
	verifAssert("line", s.line == line0+sNL(src, c, end))
	if diag {
		verifReach("diag")
		verifAssert("diag-flag", utils.HadError)
		verifAssert("diag-one", nerr == 1)
		verifAssert("diag-no-token", len(s.tokens) == 0)
		if nerr == 1 {
			ln := 0
			for i := 0; i < verifNumEvents(); i++ {
				if verifEventKind(i) == 2 {
					ln = verifEventB(i)
				}
			}
			verifAssert("diag-line-within-chunk", ln >= line0 && ln <= line0+sNL(src, c, end))
		}
	} else if tok && ty == token.NUMBER {
		verifReach("number")
		// a token, unless strconv reports a range error (then a diagnostic and no token)
		if len(s.tokens) == 0 {
			verifAssert("number-rejected-with-diagnostic", utils.HadError && nerr == 1)
		} else {
			verifAssert("number-count", len(s.tokens) == 1)
			verifAssert("number-type", s.tokens[0].Type == token.NUMBER)
			verifAssert("number-no-flag", !utils.HadError && nerr == 0)
			verifAssert("number-line", s.tokens[0].Line == line0)
			_, isF := s.tokens[0].Literal.(float64)
			verifAssert("number-literal-is-float", isF)
			lx := []rune(s.tokens[0].Lexeme)
			verifAssert("number-lexeme-len", len(lx) == end-c)
			if len(lx) == end-c {
				for i := 0; i < end-c; i++ {
					verifAssert("number-lexeme-rune", lx[i] == src[c+i])
				}
			}
		}
	} else if tok {
		verifReach("token")
		verifAssert("tok-count", len(s.tokens) == 1)
		verifAssert("tok-noflag", !utils.HadError && nerr == 0)
		if len(s.tokens) == 1 {
			t := s.tokens[0]
			verifAssert("tok-type", t.Type == ty)
			verifAssert("tok-line", t.Line == line0+sNL(src, c, end-1))
			lx := []rune(t.Lexeme)
			verifAssert("lexeme-len", len(lx) == end-c)
			if len(lx) == end-c {
				for i := 0; i < end-c; i++ {
					verifAssert("lexeme-rune", lx[i] == src[c+i])
				}
			}
			if ty == token.STRING {
				verifReach("string")
				v, ok := stringLiteralRunes(t.Literal)
				verifAssert("string-literal-kind", ok)
				verifAssert("string-literal-len", len(v) == vhi-vlo)
				if len(v) == vhi-vlo {
					for i := 0; i < len(v); i++ {
						verifAssert("string-literal-rune", v[i] == src[vlo+i])
					}
				}
			} else {
				verifAssert("nonliteral-has-nil-literal", t.Literal == nil)
			}
		}
	} else {
		verifReach("blank")
		verifAssert("blank-no-token", len(s.tokens) == 0)
		verifAssert("blank-no-flag", !utils.HadError && nerr == 0)
	}
}

// stringLiteralRunes accepts either host representation of a string literal's value.
func stringLiteralRunes(v interface{}) ([]rune, bool) {
	if r, ok := v.([]rune); ok {
		return r, true
	}
	if s, ok := v.(string); ok {
		return []rune(s), true
	}
	return nil, false
}

// VH_whole: the real ScanTokens on an n-rune source against the iteration of specLex.
func VH_whole(n int) {
	src := make([]rune, n)
	for i := 0; i < n; i++ {
		src[i] = verifNondetRune()
	}
	utils.HadError = false
	s := NewScanner(src)
	toks := s.ScanTokens()
	nerr := 0
	for i := 0; i < verifNumEvents(); i++ {
		if verifEventKind(i) == 2 {
			nerr++
		}
	}
	c, line, k, wantErr := 0, 1, 0, 0
	numberSeen := false
	for c < n {
		end, tok, ty, diag, _, _ := specLex(src, c)
		if diag {
			wantErr++
		}
		if tok {
			if ty == token.NUMBER {
				numberSeen = true
			}
			if k < len(toks) {
				verifAssert("whole-type", toks[k].Type == ty)
				verifAssert("whole-line", toks[k].Line == line+sNL(src, c, end-1))
			}
			k++
		}
		line += sNL(src, c, end)
		c = end
	}
	if !numberSeen {
		verifAssert("whole-count", len(toks) == k+1)
		verifAssert("whole-diagnostics", nerr == wantErr)
		verifAssert("whole-flag", utils.HadError == (wantErr > 0))
	}
	if len(toks) > 0 {
		last := toks[len(toks)-1]
		verifAssert("whole-eof-last", last.Type == token.EOF)
		verifAssert("whole-eof-line", last.Line == 1+sNL(src, 0, n))
		eofs := 0
		for i := 0; i < len(toks); i++ {
			if toks[i].Type == token.EOF {
				eofs++
			}
		}
		verifAssert("whole-one-eof", eofs == 1)
	} else {
		verifAssert("whole-eof-present", false)
	}
}

// VH_isDigit: classification of every 32-bit code point (C10).
func VH_isDigit() {
	c := rune(verifNondetInt(-2147483648, 2147483647))
	want := (c >= 0x30 && c <= 0x39) || (c >= 0x9E6 && c <= 0x9EF)
	verifAssert("isDigit-iff-documented-ranges", isDigit(c) == want)
}

// VH_translit1: ConvertBanglaDigitsToASCII on every single code point (C10).
func VH_translit1() {
	r := verifNondetRune()
	out := []rune(utils.ConvertBanglaDigitsToASCII(string([]rune{r})))
	verifAssert("translit-length", len(out) == 1)
	if len(out) == 1 {
		verifAssert("translit-value", out[0] == sDigitValue(r))
	}
}

// VH_translitN: position-wise on strings of n code points (C10).
func VH_translitN(n int) {
	src := make([]rune, n)
	for i := 0; i < n; i++ {
		src[i] = verifNondetRune()
	}
	out := []rune(utils.ConvertBanglaDigitsToASCII(string(src)))
	verifAssert("translitN-length", len(out) == n)
	if len(out) == n {
		for i := 0; i < n; i++ {
			verifAssert("translitN-value", out[i] == sDigitValue(src[i]))
		}
	}
}

// VH_number (C10): the value of a numeric literal is strconv.ParseFloat applied to the
// transliterated lexeme — never an infinite value smuggled into a token, never a literal
// computed from anything else.
func VH_number(n int) {
	src := make([]rune, n)
	for i := 0; i < n; i++ {
		src[i] = verifNondetRune()
	}
	end, tok, ty, _, _, _ := specLex(src, 0)
	verifAssume(tok && ty == token.NUMBER)
	utils.HadError = false
	s := NewScanner(src)
	s.scanToken()
	ascii := make([]rune, end)
	for i := 0; i < end; i++ {
		ascii[i] = sDigitValue(src[i])
	}
	want, err := strconv.ParseFloat(string(ascii), 64)
	if err != nil {
		verifAssert("literal-out-of-range-is-rejected", len(s.tokens) == 0 && utils.HadError)
		return
	}
	verifAssert("literal-in-range-is-a-token", len(s.tokens) == 1 && !utils.HadError)
	if len(s.tokens) == 1 {
		v, isF := s.tokens[0].Literal.(float64)
		verifAssert("literal-value-is-parsefloat-of-transliterated-lexeme", isF && (v == want || (v != v && want != want)))
	}
}

// VH_integer (C10): an integer literal of n digits (either script, any mixture) denotes the
// double nearest to its exact value. Here strconv.ParseFloat is not left uninterpreted: for
// digit strings of up to 19 digits the stub carries its documented contract (round to nearest
// even of the exact integer), so a literal computed any other way must agree with it.
func VH_integer(n int) {
	verifOption("parsefloat-exact-integers")
	verifOption("summarise-transliteration")
	src := make([]rune, n)
	for i := 0; i < n; i++ {
		src[i] = verifNondetRune()
		verifAssume(sDigit(src[i]))
	}
	utils.HadError = false
	s := NewScanner(src)
	s.scanToken()
	ascii := make([]rune, n)
	for i := 0; i < n; i++ {
		ascii[i] = sDigitValue(src[i])
	}
	want, err := strconv.ParseFloat(string(ascii), 64)
	verifAssert("integer-literal-parses", err == nil)
	verifAssert("integer-literal-is-one-token", len(s.tokens) == 1 && !utils.HadError && s.current == n)
	if len(s.tokens) == 1 {
		v, isF := s.tokens[0].Literal.(float64)
		verifAssert("integer-literal-denotes-the-nearest-double", isF && v == want)
	}
}

// midpoints: exact decimal expansions of the point halfway between two adjacent doubles. Any
// further non-zero digit moves the literal off the tie, so every digit of such a literal —
// however far to the right — takes part in deciding its value.
var midpoints = []string{
	"1.00000000000000011102230246251565404236316680908203125",
	"0.100000000000000012490009027033011079765856266021728515625",
	"9007199254740993.",
	"123456.7890000000115833245217800140380859375",
}

// VH_midpoint (C10): a midpoint literal followed by k arbitrary digits (either script). The
// value must be strconv.ParseFloat of the whole transliterated lexeme; a lexer that hands
// ParseFloat anything else (a prefix, a re-rendered numeral) is refuted by the solver through
// the uninterpreted parse function, and the counterexample's digits decide the rounding natively.
func VH_midpoint(which int, k int) {
	pre := []rune(midpoints[which])
	n := len(pre) + k
	src := make([]rune, n)
	copy(src, pre)
	for i := len(pre); i < n; i++ {
		src[i] = verifNondetRune()
		verifAssume(sDigit(src[i]))
	}
	utils.HadError = false
	s := NewScanner(src)
	s.scanToken()
	ascii := make([]rune, n)
	for i := 0; i < n; i++ {
		ascii[i] = sDigitValue(src[i])
	}
	want, err := strconv.ParseFloat(string(ascii), 64)
	verifAssert("midpoint-literal-parses", err == nil)
	verifAssert("midpoint-literal-is-one-token", len(s.tokens) == 1 && !utils.HadError && s.current == n)
	if len(s.tokens) == 1 {
		v, isF := s.tokens[0].Literal.(float64)
		verifAssert("midpoint-literal-value-is-parsefloat-of-whole-lexeme", isF && v == want)
	}
}

// VH_overflow (C10): integer literals around the range limit of a double. n digits: a lead
// digit, two further arbitrary digits (each in either script), then zeros.
//
//	lead 0: the lead is 1..9 (n >= 310: always out of range -> diagnostic, no token)
//	lead 1: the lead is 2..9 (n = 309: always out of range)
//	lead 2: the first n-308 digits are zeros, so the value is below 1e308: always a token
//
// Out of range is what strconv.ParseFloat reports for the transliterated lexeme (documented:
// ErrRange beyond MaxFloat64 = 1.797…e308).
func VH_overflow(n int, lead int) {
	src := make([]rune, n)
	for i := 0; i < n; i++ {
		src[i] = '0'
	}
	sym := func(i int) {
		src[i] = verifNondetRune()
		verifAssume(sDigit(src[i]))
	}
	switch lead {
	case 0:
		sym(0)
		verifAssume(sDigitValue(src[0]) != '0')
		sym(1)
		sym(2)
	case 1:
		sym(0)
		verifAssume(sDigitValue(src[0]) >= '2')
		sym(1)
		sym(2)
	default:
		// leading zeros in either script (a choice for the first two and the last one; the rest
		// alternate: 2^k combinations of k zeros would only multiply identical paths)
		for i := 0; i < n-308; i++ {
			if i < 2 || i == n-309 {
				if verifChoice(2) == 1 {
					src[i] = 0x9E6
				}
			} else if i%2 == 1 {
				src[i] = 0x9E6
			}
		}
		sym(n - 308)
		sym(n - 1)
	}
	utils.HadError = false
	verifClearEvents()
	s := NewScanner(src)
	s.scanToken()
	ascii := make([]rune, n)
	for i := 0; i < n; i++ {
		ascii[i] = sDigitValue(src[i])
	}
	want, err := strconv.ParseFloat(string(ascii), 64)
	verifAssert("literal-is-scanned-whole", s.current == n)
	if lead == 2 {
		verifAssert("literal-in-range-parses", err == nil)
	} else {
		verifAssert("literal-out-of-range-fails-to-parse", err != nil)
	}
	if err != nil {
		verifAssert("literal-out-of-range-is-rejected", len(s.tokens) == 0 && utils.HadError)
		// … every time the text is scanned in this process (a REPL scans line after line), and in
		// the other digit script too
		utils.HadError = false
		s2 := NewScanner(src)
		s2.scanToken()
		verifAssert("literal-out-of-range-is-rejected-again", len(s2.tokens) == 0 && utils.HadError)
		utils.HadError = false
		s3 := NewScanner(ascii)
		s3.scanToken()
		verifAssert("literal-out-of-range-is-rejected-again", len(s3.tokens) == 0 && utils.HadError)
		return
	}
	verifAssert("literal-in-range-is-a-token", len(s.tokens) == 1 && !utils.HadError)
	if len(s.tokens) == 1 {
		v, isF := s.tokens[0].Literal.(float64)
		verifAssert("literal-value-is-parsefloat-of-transliterated-lexeme", isF && v == want)
	}
}

// VH_fraction (C10): 0.000…0d and 0.000…0dd with 1-30 digits after the point (d = 1..9, in either
// script): the literal's value is ParseFloat of the transliterated lexeme. These texts are
// concrete, so the documented function itself is the oracle (the real strconv runs in the
// engine as it does natively) — a direct conversion that is exact only up to some power of ten
// shows at the first length where it is not.
func VH_fraction(two int) {
	frac := 1 + verifChoice(30)
	d := 1 + verifChoice(9)
	bangla := verifChoice(2) == 1
	text := "0."
	for i := 1; i < frac; i++ {
		text += "0"
	}
	text += string(rune('0' + d))
	if two == 1 {
		text += string(rune('0' + (d+6)%10))
	}
	src := []rune(text)
	if bangla {
		for i, r := range src {
			if r >= '0' && r <= '9' {
				src[i] = r - '0' + 0x9E6
			}
		}
	}
	utils.HadError = false
	s := NewScanner(src)
	s.scanToken()
	want, err := strconv.ParseFloat(text, 64)
	verifAssert("literal-in-range-parses", err == nil)
	verifAssert("literal-in-range-is-a-token", len(s.tokens) == 1 && !utils.HadError && s.current == len(src))
	if len(s.tokens) == 1 {
		v, isF := s.tokens[0].Literal.(float64)
		verifAssert("literal-value-is-parsefloat-of-transliterated-lexeme", isF && v == want)
	}
}

// numberContexts: text that stands before a numeral and must not change what the numeral means:
// strings holding comment openers, comments holding quotes, division signs, a lone slash.
var numberContexts = []string{
	"\"a//b\" ", "\"/*\" ", "// \"c\n", "/* \" */ ", "\"x\" // \"\n", "x / y ; ", "\"\u09e7//\" ", "x /* \u09e7 */ / ", "\"a\" \"//\" ",
}

// VH_numberInContext (C10): a numeral of n digits of either script, scanned as part of a whole
// program after each of numberContexts, denotes the same number as on its own: the tokens are
// those of the context alone, then one NUMBER whose value is the digits' value.
func VH_numberInContext(ctx int, n int) {
	verifOption("parsefloat-exact-integers")
	verifOption("summarise-transliteration")
	pre := []rune(numberContexts[ctx])
	utils.HadError = false
	base := NewScanner(pre).ScanTokens()
	baseErr := utils.HadError
	src := append([]rune{}, pre...)
	ascii := make([]rune, n)
	for i := 0; i < n; i++ {
		d := verifNondetRune()
		verifAssume(sDigit(d))
		src = append(src, d)
		ascii[i] = sDigitValue(d)
	}
	src = append(src, ' ')
	utils.HadError = false
	toks := NewScanner(src).ScanTokens()
	want, err := strconv.ParseFloat(string(ascii), 64)
	verifAssert("integer-literal-parses", err == nil)
	verifAssert("context-diagnostics-unchanged", utils.HadError == baseErr)
	verifAssert("context-tokens-then-one-number", len(toks) == len(base)+1)
	if len(toks) == len(base)+1 && len(toks) >= 2 {
		for i := 0; i+1 < len(base); i++ {
			verifAssert("context-tokens-unchanged", toks[i].Type == base[i].Type && toks[i].Lexeme == base[i].Lexeme)
		}
		num := toks[len(toks)-2]
		v, isF := num.Literal.(float64)
		verifAssert("numeral-after-context-is-a-number", num.Type == token.NUMBER && isF)
		if isF {
			verifAssert("numeral-after-context-denotes-its-digits-value", v == want)
		}
	}
}
