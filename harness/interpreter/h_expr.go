package interpreter

// Expression-node harnesses: evaluation order (C14), short-circuit logic (C14), grouping
// transparency (C18e), value-consuming node cases applied to every value kind (C07).

import (
	"github.com/ah-naf/borno/ast"
	"github.com/ah-naf/borno/environment"
	"github.com/ah-naf/borno/token"
	"github.com/ah-naf/borno/utils"
)

// vpRecorder: a callee that accepts any number of arguments and records that it was entered.
type vpRecorder struct{}

var vpRecorded []interface{}
var vpRecorderCalls int

func (vpRecorder) Call(i *Interpreter, args []interface{}) (interface{}, error) {
	vpRecorderCalls++
	vpRecorded = args
	verifEvent(100, len(args))
	return nil, nil
}
func (vpRecorder) Arity() int     { return -1 }
func (vpRecorder) String() string { return "<recorder>" }

func tok(t token.TokenType, lexeme string, line int) token.Token {
	return token.Token{Type: t, Lexeme: lexeme, Line: line}
}

// orderNode builds node kind `which` over m probes numbered 0..m-1 in reading order and
// returns the node and m.
func orderNode(which int, mode int, mask int, env *environment.Environment) (ast.Expr, int) {
	p := func() ast.Expr {
		e := vpNew(mode, mask, 7)
		if orderFaulty {
			if verifChoice(3) == 2 {
				// an operand that reports a runtime error and still yields its value: an
				// assignment to a name that was never declared
				return &ast.AssignmentStmt{Name: tok(token.IDENTIFIER, "never_declared", 7), Value: e, Line: 7}
			}
		}
		return e
	}
	switch which {
	case 0: // binary
		ty := verifNondetInt(0, int(token.EOF))
		verifAssume(isBinaryOp(token.TokenType(ty)))
		a := p()
		b := p()
		return &ast.Binary{Left: a, Operator: tok(token.TokenType(ty), "op", 7), Right: b, Line: 7}, 2
	case 1: // unary
		ty := verifNondetInt(0, int(token.EOF))
		a := p()
		return &ast.Unary{Operator: tok(token.TokenType(ty), "op", 7), Right: a, Line: 7}, 1
	case 2: // grouping
		return &ast.Grouping{Expression: p(), Line: 7}, 1
	case 3: // call: callee, then arguments
		callee := &ast.Literal{Value: vpRecorder{}, Line: 7}
		a := p()
		b := p()
		c := p()
		return &ast.Call{Callee: callee, Paren: tok(token.RIGHT_PAREN, ")", 7), Arguments: []ast.Expr{a, b, c}}, 3
	case 4: // array literal
		a := p()
		b := p()
		c := p()
		return &ast.ArrayLiteral{Elements: []ast.Expr{a, b, c}, Line: 7}, 3
	case 5: // index read
		a := p()
		b := p()
		return &ast.ArrayAccess{Array: a, Index: b, Line: 7}, 2
	case 6: // index write: array, index, value
		a := p()
		b := p()
		c := p()
		return &ast.ArrayAssignment{Array: a, Index: b, Value: c, Line: 7}, 3
	case 7: // property write: object, value
		a := p()
		b := p()
		return &ast.PropertyAssignment{Object: a, Property: tok(token.IDENTIFIER, "k0", 7), Value: b, Line: 7}, 2
	case 8: // property read
		return &ast.PropertyAccess{Object: p(), Property: tok(token.IDENTIFIER, "k0", 7), Line: 7}, 1
	case 9: // assignment: value, then store
		env.Define("x", 1.0)
		return &ast.AssignmentStmt{Name: tok(token.IDENTIFIER, "x", 7), Value: p(), Line: 7}, 1
	case 10: // print
		return &ast.PrintStatement{Expression: p()}, 1
	case 11: // declaration with initialiser
		return &ast.VarStmt{Name: tok(token.IDENTIFIER, "y", 7), Initializer: p(), Line: 7}, 1
	case 12: // expression statement
		return &ast.ExpressionStatement{Expression: p()}, 1
	case 13: // condition of if
		return &ast.IfStmt{Condition: p(), ThenBranch: &ast.BlockStmt{}}, 1
	default: // call with a probe-valued callee (any value kind may be called)
		a := p()
		b := p()
		return &ast.Call{Callee: a, Paren: tok(token.RIGHT_PAREN, ")", 7), Arguments: []ast.Expr{b}}, -2
	}
}

var orderFaulty bool

// VH_order: operands are evaluated exactly once, left to right; no operand is evaluated
// after a diagnostic; the node returns a signal; nothing is printed on error.
func VH_order(which int, size int, isRepl int) {
	orderFaulty = isRepl >= 2
	if isRepl >= 2 {
		isRepl -= 2
	}
	reach := hvReachable()
	mode := 1
	if size > 0 {
		mode = 2
	}
	vpReset(1, mode, false)
	vpNoRepeat = true
	stOnline = false
	env := environment.NewEnvironmentWithParent(environment.NewEnvironment())
	node, m := orderNode(which, mode, reach.mask(), env)
	anyCallee := false
	if m == -2 {
		m = 2
		anyCallee = true
	}
	utils.HadError = false
	utils.HadRuntimeError = false
	vpRecorderCalls = 0
	in := NewInterpreter()
	verifClearEvents()
	_, sig := in.eval(node, env, isRepl == 1)
	verifAssert("node-returns-a-signal", sig != nil)
	n := verifNumEvents()
	next := 0
	sawErr := false
	for i := 0; i < n; i++ {
		switch verifEventKind(i) {
		case 3:
			if verifEventA(i) == 100 {
				verifAssert("callee-entered-after-all-arguments", next == m)
				verifAssert("callee-not-entered-after-diagnostic", !sawErr)
				continue
			}
			verifAssert("operand-evaluated-in-reading-order-once", verifEventA(i) == next)
			verifAssert("no-operand-evaluated-after-diagnostic", !sawErr)
			next++
		case 2:
			sawErr = true
		case 1:
			verifAssert("nothing-printed-after-diagnostic", !sawErr)
		}
	}
	if !sawErr {
		if !anyCallee {
			verifAssert("every-operand-evaluated", next == m)
		}
		verifAssert("no-diagnostic-no-flag", !utils.HadRuntimeError)
	} else {
		verifAssert("diagnostic-sets-flag", utils.HadRuntimeError)
		if !orderFaulty && !anyCallee && which != 7 {
			// the probes of this harness never fail, so the diagnostic is the node's own: an
			// operator, call or index is applied to its operands once all of them have been
			// evaluated — every operand exactly once, also on the way to an error. (Not asserted
			// for a property write, whose target must be an object before there is anything to
			// assign to: the pinned tree reports a non-object target before evaluating the value.)
			verifAssert("every-operand-evaluated-before-the-operation-fails", next == m)
		}
	}
	if which == 3 {
		if !sawErr {
			verifAssert("callee-entered-exactly-once", vpRecorderCalls == 1)
			if vpRecorderCalls == 1 {
				verifAssert("arguments-arrive-by-position", len(vpRecorded) == 3)
				if len(vpRecorded) == 3 {
					verifAssert("argument-0", hvIdentical(vpRecorded[0], vpVals[0][0]))
					verifAssert("argument-1", hvIdentical(vpRecorded[1], vpVals[1][0]))
					verifAssert("argument-2", hvIdentical(vpRecorded[2], vpVals[2][0]))
				}
			}
		}
	}
}

// VH_logical: short circuit on truthiness, yielding the deciding operand's own value.
func VH_logical(size int, isOr int) {
	reach := hvReachable()
	mode := 1
	if size > 0 {
		mode = 2
	}
	vpReset(1, mode, false)
	vpNoRepeat = true
	stOnline = false
	a := vpNew(mode, reach.mask(), 3)
	b := vpNew(mode, reach.mask(), 3)
	// the right operand may also be a literal node, carrying what the real lexer stores for
	// a string or number token
	rightLiteral := verifChoice(3)
	var litValueR interface{}
	if rightLiteral == 1 {
		litValueR = stringLiteralValue(hvText(size))
		b = &ast.Literal{Value: litValueR, Line: 3}
	} else if rightLiteral == 2 {
		litValueR = verifNondetFloat()
		b = &ast.Literal{Value: litValueR, Line: 3}
	}
	op := tok(token.LOGICAL_AND, "&&", 3)
	if isOr == 1 {
		op = tok(token.LOGICAL_OR, "||", 3)
	}
	// the spelling of the operator must not matter (C18c)
	if verifNondetBool() {
		if isOr == 1 {
			op.Lexeme = "\u09ac\u09be"
		} else {
			op.Lexeme = "\u098f\u09ac\u0982"
		}
	}
	node := &ast.Logical{Left: a, Operator: op, Right: b}
	utils.HadRuntimeError = false
	in := NewInterpreter()
	env := environment.NewEnvironment()
	verifClearEvents()
	got, sig := in.eval(node, env, false)
	verifAssert("logical-returns-a-signal", sig != nil)
	verifAssert("logical-no-diagnostic", hvCountStderr() == 0 && !utils.HadRuntimeError)
	left := vpVals[0][0]
	right := vpVals[1][0]
	if rightLiteral != 0 {
		// what evaluating that literal on its own yields
		right, _ = NewInterpreter().eval(&ast.Literal{Value: litValueR, Line: 3}, environment.NewEnvironment(), false)
		vpCalls[1] = 0
	}
	lt := specTruthy(left)
	needRight := lt
	if isOr == 1 {
		needRight = !lt
	}
	verifAssert("left-evaluated-once", vpCalls[0] == 1)
	if needRight {
		if rightLiteral == 0 {
			verifAssert("right-evaluated-when-needed", vpCalls[1] == 1)
		}
		verifAssert("result-is-right-operand", hvIdentical(got, right))
	} else {
		verifAssert("right-not-evaluated-when-decided", vpCalls[1] == 0)
		verifAssert("result-is-left-operand", hvIdentical(got, left))
	}
}

// VH_conditions: if / while / for / ! / logical all use the same truthiness (C14).
func VH_conditions(size int) {
	reach := hvReachable()
	mode := 1
	if size > 0 {
		mode = 2
	}
	vpReset(2, mode, false)
	stOnline = false
	c := vpNew(mode, reach.mask(), 3)
	thenP := vpNew(0, 0, 4)
	elseP := vpNew(0, 0, 5)
	which := verifChoice(3)
	// the condition is the operand itself, the operand in parentheses, or a prefix operator
	// applied to it: what decides is the truthiness of the condition's *value*
	wrap := verifChoice(5)
	operand := c
	switch wrap {
	case 1:
		c = &ast.Grouping{Expression: operand}
	case 2:
		c = &ast.Unary{Operator: tok(token.BANG, "!", 3), Right: operand, Line: 3}
	case 3:
		c = &ast.Unary{Operator: tok(token.NOT, "~", 3), Right: operand, Line: 3}
		// what is decided here is which node kinds a condition may be, not the arithmetic of ~
		// (VH_unary does that): a numeric operand is one of a few representative numbers
		if v := vpVals[0][0]; hvIsNum(v) {
			x := hvNum(v)
			verifAssume(x == 0 || x == -1 || x == 5 || x == -7 || x == 2.5)
		}
	case 4:
		c = &ast.Unary{Operator: tok(token.MINUS, "-", 3), Right: operand, Line: 3}
	}
	var node ast.Stmt
	switch which {
	case 0:
		node = &ast.IfStmt{Condition: c, ThenBranch: &ast.ExpressionStatement{Expression: thenP}, ElseBranch: &ast.ExpressionStatement{Expression: elseP}}
	case 1:
		node = &ast.While{Condition: c, Body: &ast.BlockStmt{Block: []ast.Stmt{&ast.ExpressionStatement{Expression: thenP}, &ast.BreakStmt{Line: 4}}}}
	default:
		node = &ast.ForStmt{Condition: c, Body: &ast.BlockStmt{Block: []ast.Stmt{&ast.ExpressionStatement{Expression: thenP}, &ast.BreakStmt{Line: 4}}}}
	}
	utils.HadRuntimeError = false
	in := NewInterpreter()
	env := environment.NewEnvironment()
	verifClearEvents()
	_, sig := in.eval(node, env, false)
	verifAssert("cond-returns-a-signal", sig != nil)
	t := specTruthy(vpVals[0][0])
	if wrap >= 2 {
		ops := []token.TokenType{token.BANG, token.NOT, token.MINUS}
		r := specUnary(ops[wrap-2], vpVals[0][0])
		switch r.cls {
		case clsError:
			verifAssert("cond-failing-condition-runs-neither-arm", vpCalls[1] == 0 && vpCalls[2] == 0 && hvCountStderr() >= 1)
			return
		case clsValue:
			if r.kind == rkBool {
				t = r.b
			} else {
				t = r.num != 0
			}
		default:
			verifReach("cond-open")
			return
		}
	}
	if t {
		verifAssert("truthy-condition-runs-the-body", vpCalls[1] == 1)
		verifAssert("truthy-condition-skips-else", vpCalls[2] == 0)
	} else {
		verifAssert("falsy-condition-skips-the-body", vpCalls[1] == 0)
		if which == 0 {
			verifAssert("falsy-condition-runs-else", vpCalls[2] == 1)
		}
	}
	verifAssert("cond-no-diagnostic", hvCountStderr() == 0)
}

// VH_grouping: eval(Grouping{P}) behaves exactly like eval(P) (C18e).
func VH_grouping(size int) {
	reach := hvReachable()
	mode := 1
	if size > 0 {
		mode = 2
	}
	vpReset(1, mode, true)
	vpNoRepeat = true
	stOnline = false
	p := vpNew(mode, reach.mask(), 3)
	utils.HadRuntimeError = false
	in := NewInterpreter()
	env := environment.NewEnvironment()
	verifClearEvents()
	got, sig := in.eval(&ast.Grouping{Expression: p, Line: 9}, env, false)
	verifAssert("grouping-returns-a-signal", sig != nil)
	verifAssert("grouping-evaluates-operand-once", vpCalls[0] == 1)
	if vpFail[0][0] {
		verifAssert("grouping-propagates-failure", utils.HadRuntimeError && got == nil)
		verifAssert("grouping-adds-no-diagnostic", hvCountStderr() == 1)
	} else {
		verifAssert("grouping-yields-operand-value", hvIdentical(got, vpVals[0][0]))
		verifAssert("grouping-no-diagnostic", hvCountStderr() == 0 && !utils.HadRuntimeError)
	}
	if sig != nil {
		verifAssert("grouping-raises-no-signal", sig.Type == ControlFlowNone)
	}
}

// VH_relExpr (C16): an operand written as a literal behaves like the same value arriving from
// any other expression. Each node kind is evaluated twice on the same operand values: once
// with every operand a probe call (an arbitrary computed expression), once with a subset of
// the operands replaced by literal nodes carrying what the lexer stores for that value.
func VH_relExpr(which int, size int, nforms int) {
	vpReset(1, 0, false)
	stOnline = false
	// operand values: nil, booleans, numbers, strings of `size` code points
	nops := 2
	if which == 1 || which == 3 || which == 4 {
		nops = 1
	}
	var vals [2]interface{}
	var isStr [2]bool
	var txt [2][]rune
	for k := 0; k < nops; k++ {
		kind := verifNondetInt(0, 3)
		var nilv interface{}
		txt[k] = hvText(size)
		vals[k] = verifSelect(kind, nilv, verifNondetBool(), verifNondetFloat(), string(txt[k]))
		isStr[k] = kind == 3
	}
	ty := verifNondetInt(0, int(token.EOF))
	op := tok(token.TokenType(ty), "op", 7)
	arr := []interface{}{10.0, 20.0, 30.0}
	// the form each operand takes in the second run: 0 computed expression (probe call),
	// 1 literal, 2 variable, 3 parenthesised literal, 4 parenthesised variable
	var form [2]int
	any := false
	for k := 0; k < nops; k++ {
		form[k] = verifChoice(nforms)
		if form[k] != 0 {
			any = true
		}
	}
	if !any {
		verifAssume(false)
	}
	lop := tok(token.LOGICAL_OR, "||", 7)
	if which == 2 {
		if verifChoice(2) == 1 {
			lop = tok(token.LOGICAL_AND, "&&", 7)
		}
	}
	var res [2]interface{}
	var failed [2]bool
	var out [2]string
	for run := 0; run < 2; run++ {
		vpN = 0
		env := environment.NewEnvironment()
		var e [2]ast.Expr
		for k := 0; k < nops; k++ {
			f := 0
			if run == 1 {
				f = form[k]
			}
			var lv interface{} = vals[k]
			if isStr[k] {
				lv = stringLiteralValue(txt[k])
			}
			name := "v0"
			if k == 1 {
				name = "v1"
			}
			env.Define(name, vals[k])
			switch f {
			case 0:
				pe := vpNew(0, 0, 7)
				vpVals[k][0] = vals[k]
				vpCalls[k] = 0
				e[k] = pe
				vpN = k + 1
			case 1:
				e[k] = &ast.Literal{Value: lv, Line: 7}
			case 2:
				e[k] = ident(name, 7)
			case 3:
				e[k] = &ast.Grouping{Expression: &ast.Literal{Value: lv, Line: 7}, Line: 7}
			default:
				e[k] = &ast.Grouping{Expression: ident(name, 7), Line: 7}
			}
			vpN = k + 1
		}
		var node ast.Expr
		switch which {
		case 0:
			verifAssume(isBinaryOp(op.Type))
			node = &ast.Binary{Left: e[0], Operator: op, Right: e[1], Line: 7}
		case 1:
			node = &ast.Unary{Operator: op, Right: e[0], Line: 7}
		case 2:
			node = &ast.Logical{Left: e[0], Operator: lop, Right: e[1]}
		case 3:
			node = &ast.ArrayAccess{Array: lit(arr, 7), Index: e[0], Line: 7}
		case 4:
			node = &ast.IfStmt{Condition: e[0], ThenBranch: &ast.PrintStatement{Expression: lit("then", 7)}, ElseBranch: &ast.PrintStatement{Expression: lit("else", 7)}}
		default:
			node = &ast.PrintStatement{Expression: &ast.ArrayLiteral{Elements: []ast.Expr{e[0], e[1]}, Line: 7}}
		}
		utils.HadError, utils.HadRuntimeError = false, false
		verifClearEvents()
		in := NewInterpreter()
		res[run], _ = in.eval(node, env, false)
		failed[run] = utils.HadRuntimeError
		for i := 0; i < verifNumEvents(); i++ {
			if verifEventKind(i) == 1 {
				out[run] = out[run] + verifEventText(i)
			}
		}
	}
	verifAssert("literal-operand-same-failure", failed[0] == failed[1])
	if !failed[0] {
		if !failed[1] {
			verifAssert("literal-operand-same-result", sameOutcome(res[0], res[1]))
			verifAssert("literal-operand-same-output", out[0] == out[1])
		}
	}
}

// VH_orderIdent (C14): a later operand that is a bare variable, read after an earlier operand has
// assigned that variable, sees the new value — operands are evaluated left to right whatever
// their syntactic form. x starts as a, the first operand is (x = b); the node is a binary
// operator (x = b) op x, a call f((x = b), x), an array literal [(x = b), x], an index read
// arr[(i = 1)][i] ... with a and b arbitrary numbers.
func VH_orderIdent(which int) {
	a, b := verifNondetFloat(), verifNondetFloat()
	in := NewInterpreter()
	env := environment.NewEnvironmentWithParent(in.globals)
	env.Define("x", a)
	assign := &ast.Grouping{Expression: &ast.AssignmentStmt{Name: tok(token.IDENTIFIER, "x", 7), Value: &ast.Literal{Value: b, Line: 7}, Line: 7}, Line: 7}
	readX := &ast.Identifier{Name: tok(token.IDENTIFIER, "x", 7), Line: 7}
	utils.HadError, utils.HadRuntimeError = false, false
	verifClearEvents()
	switch which {
	case 0:
		ty := verifNondetInt(0, int(token.EOF))
		verifAssume(isBinaryOp(token.TokenType(ty)))
		got, _ := in.eval(&ast.Binary{Left: assign, Operator: tok(token.TokenType(ty), "op", 7), Right: readX, Line: 7}, env, false)
		nerr := hvCountStderr()
		want := specBinary(b, token.TokenType(ty), b)
		checkResult("operand-order-", got, want, nerr)
	case 1:
		vpRecorderCalls = 0
		in.eval(&ast.Call{Callee: &ast.Literal{Value: vpRecorder{}, Line: 7}, Paren: tok(token.RIGHT_PAREN, ")", 7), Arguments: []ast.Expr{assign, readX}}, env, false)
		verifAssert("arguments-arrive-by-position", vpRecorderCalls == 1 && len(vpRecorded) == 2)
		if vpRecorderCalls == 1 && len(vpRecorded) == 2 {
			verifAssert("argument-1", hvIdentical(vpRecorded[0], b) && hvIdentical(vpRecorded[1], b))
		}
	default:
		got, _ := in.eval(&ast.ArrayLiteral{Elements: []ast.Expr{assign, readX}, Line: 7}, env, false)
		arr, ok := got.([]interface{})
		verifAssert("operand-evaluated-in-reading-order-once", ok && len(arr) == 2 && hvIdentical(arr[0], b) && hvIdentical(arr[1], b))
	}
}
