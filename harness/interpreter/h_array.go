package interpreter

// C11: histories of array operations through the real eval cases and built-ins, checked after
// every step against the pure list model of DESIGN E.7. Index values are arbitrary values of
// any kind (symbolic doubles in particular), so every fractional / negative / out-of-range /
// NaN / non-numeric index is one solver query.

import (
	"math"

	"github.com/ah-naf/borno/ast"
	"github.com/ah-naf/borno/environment"
	"github.com/ah-naf/borno/token"
	"github.com/ah-naf/borno/utils"
)

const (
	nameLen    = "\u09b2\u09c7\u09a8"             // লেন
	nameAppend = "\u098f\u09a1"                   // এড
	nameRemove = "\u09b0\u09bf\u09ae\u09c1\u09ad" // রিমুভ
)

type mArray struct {
	elems [12]float64
	n     int
}

var (
	maArr  [10]mArray
	maN    int
	maVar  [3]int // model array held by variable i, or -1
	maNext float64
)

var arVarNames = [3]string{"a", "b", "c"}

func maNew() int {
	if maN >= 10 {
		verifAssume(false)
	}
	maArr[maN].n = 0
	maN++
	return maN - 1
}

func maFresh() float64 {
	maNext++
	return maNext
}

func ident(name string, line int) *ast.Identifier {
	return &ast.Identifier{Name: tok(token.IDENTIFIER, name, line), Line: line}
}

func lit(v interface{}, line int) *ast.Literal { return &ast.Literal{Value: v, Line: line} }

func callNamed(name string, line int, args ...ast.Expr) *ast.Call {
	return &ast.Call{Callee: ident(name, line), Paren: tok(token.RIGHT_PAREN, ")", line), Arguments: args}
}

// specIndex: (index, ok) for a value used as an array index into length n (E.7). open
// reports a case the statement leaves unspecified (a numeric-looking string).
func specIndex(v interface{}, n int) (int, bool, bool) {
	if hvIsStr(v) {
		return 0, false, true
	}
	if !hvIsNum(v) {
		return 0, false, false
	}
	x := hvNum(v)
	if x != x {
		return 0, false, false
	}
	if !inInt64Range(x) {
		return 0, false, false
	}
	if math.Trunc(x) != x {
		return 0, false, false
	}
	if x < 0 {
		return 0, false, false
	}
	if x >= float64(n) {
		return 0, false, false
	}
	return int(x), true, false
}

// arCompare checks every variable against the model.
func arCompare(env *environment.Environment) {
	for v := 0; v < 3; v++ {
		if maVar[v] < 0 {
			continue
		}
		got, err := env.Get(arVarNames[v])
		verifAssert("variable-still-bound", err == nil)
		arr, ok := got.([]interface{})
		verifAssert("variable-holds-an-array", ok)
		if !ok {
			continue
		}
		m := &maArr[maVar[v]]
		verifAssert("array-length-as-model", len(arr) == m.n)
		if len(arr) == m.n {
			for i := 0; i < m.n; i++ {
				f, isF := arr[i].(float64)
				verifAssert("array-element-as-model", isF && f == m.elems[i])
			}
		}
	}
}

// arExpectError: the step must have been diagnosed and produced no value.
func arExpectError(got interface{}) {
	verifAssert("invalid-array-operation-is-an-error", utils.HadRuntimeError && hvCountStderr() >= 1)
	verifAssert("invalid-array-operation-yields-no-value", got == nil)
}

func arExpectOK() bool {
	verifAssert("valid-array-operation-is-not-an-error", !utils.HadRuntimeError && hvCountStderr() == 0)
	return !utils.HadRuntimeError
}

// VH_array: `steps` operations on up to three variables.
func VH_array(steps int, size0 int) {
	reach := hvReachable()
	in := NewInterpreter()
	env := environment.NewEnvironmentWithParent(in.globals)
	maN, maNext = 0, 0
	// a = [ … size0 elements … ] through the real ArrayLiteral case
	var elems []ast.Expr
	a0 := maNew()
	for i := 0; i < size0; i++ {
		v := maFresh()
		elems = append(elems, lit(v, 1))
		maArr[a0].elems[i] = v
	}
	maArr[a0].n = size0
	utils.HadError, utils.HadRuntimeError = false, false
	verifClearEvents()
	literalNode := &ast.ArrayLiteral{Elements: elems, Line: 1}
	av, _ := in.eval(literalNode, env, false)
	env.Define("a", av)
	maVar[0] = a0
	// b: an alias of a, nothing yet, or a second evaluation of the very same literal node
	// (what a loop body or a function called twice does): a fresh array with the same elements
	switch verifChoice(3) {
	case 0:
		in.eval(&ast.VarStmt{Name: tok(token.IDENTIFIER, "b", 1), Initializer: ident("a", 1), Line: 1}, env, false)
		maVar[1] = a0
	case 1:
		env.Define("b", nil)
		maVar[1] = -1
	default:
		bv, _ := in.eval(literalNode, env, false)
		env.Define("b", bv)
		b0 := maNew()
		for i := 0; i < size0; i++ {
			maArr[b0].elems[i] = maArr[a0].elems[i]
		}
		maArr[b0].n = size0
		maVar[1] = b0
	}
	env.Define("c", nil)
	maVar[2] = -1
	// other ways to reach the array held by a: as an element of another array and as a
	// property of an object (an array is a shared reference wherever it is held)
	hv, _ := in.eval(&ast.ArrayLiteral{Elements: []ast.Expr{ident("a", 1)}, Line: 1}, env, false)
	env.Define("h", hv)
	ov, _ := in.eval(objectLiteralVia(env, lit(0.0, 1)), env, false)
	env.Define("o", ov)
	in.eval(&ast.PropertyAssignment{Object: ident("o", 1), Property: tok(token.IDENTIFIER, "p", 1), Value: ident("a", 1), Line: 1}, env, false)
	arCompare(env)
	for s := 0; s < steps; s++ {
		line := 10 + s
		src := verifChoice(2) // a or b as the operand
		if maVar[src] < 0 {
			verifAssume(false)
		}
		m := maVar[src]
		dst := 1 + verifChoice(2) // result goes to b or c
		op := verifChoice(6)
		arrayExpr := ast.Expr(ident(arVarNames[src], line))
		if src == 0 {
			switch verifChoice(3) {
			case 1:
				arrayExpr = &ast.ArrayAccess{Array: ident("h", line), Index: lit(0.0, line), Line: line}
			case 2:
				arrayExpr = &ast.PropertyAccess{Object: ident("o", line), Property: tok(token.IDENTIFIER, "p", line), Line: line}
			}
		}
		utils.HadRuntimeError = false
		verifClearEvents()
		switch op {
		case 0: // indexed write with an arbitrary index value
			idx := hvValue(reach.mask(), 1)
			nv := maFresh()
			got, _ := in.eval(&ast.ArrayAssignment{Array: arrayExpr, Index: lit(idx, line), Value: lit(nv, line), Line: line}, env, false)
			i, ok, open := specIndex(idx, maArr[m].n)
			if open {
				return
			}
			if !ok {
				arExpectError(got)
				return
			}
			if !arExpectOK() {
				return
			}
			maArr[m].elems[i] = nv
		case 1: // indexed read
			idx := hvValue(reach.mask(), 1)
			got, _ := in.eval(&ast.ArrayAccess{Array: arrayExpr, Index: lit(idx, line), Line: line}, env, false)
			i, ok, open := specIndex(idx, maArr[m].n)
			if open {
				return
			}
			if !ok {
				arExpectError(got)
				return
			}
			if !arExpectOK() {
				return
			}
			f, isF := got.(float64)
			verifAssert("indexed-read-yields-the-element", isF && f == maArr[m].elems[i])
		case 2: // length, used as a number
			got, _ := in.eval(callNamed(nameLen, line, arrayExpr), env, false)
			if !arExpectOK() {
				return
			}
			verifAssert("length-is-a-number", hvIsNum(got))
			if hvIsNum(got) {
				verifAssert("length-is-the-element-count", hvNum(got) == float64(maArr[m].n))
			}
			sum := evaluateBinary(got, tok(token.PLUS, "+", line), 1.0)
			verifAssert("length-usable-in-arithmetic", !utils.HadRuntimeError && hvIsNum(sum) && hvNum(sum) == float64(maArr[m].n+1))
			cmp := evaluateBinary(got, tok(token.EQUAL_EQUAL, "==", line), float64(maArr[m].n))
			cb, isB := cmp.(bool)
			verifAssert("length-equals-the-same-number", isB && cb)
		case 3, 4: // append one / two values; result stored in dst
			x := maFresh()
			args := []ast.Expr{arrayExpr, lit(x, line)}
			if op == 4 {
				args = append(args, lit(maFresh(), line))
			}
			asg := &ast.AssignmentStmt{Name: tok(token.IDENTIFIER, arVarNames[dst], line), Value: callNamed(nameAppend, line, args...), Line: line}
			in.eval(asg, env, false)
			if !arExpectOK() {
				return
			}
			r := maNew()
			for i := 0; i < maArr[m].n; i++ {
				maArr[r].elems[i] = maArr[m].elems[i]
			}
			maArr[r].n = maArr[m].n
			maArr[r].elems[maArr[r].n] = x
			maArr[r].n++
			if op == 4 {
				maArr[r].elems[maArr[r].n] = x + 1
				maArr[r].n++
			}
			maVar[dst] = r
		default: // remove at an arbitrary index value
			idx := hvValue(reach.mask(), 1)
			call := callNamed(nameRemove, line, arrayExpr, lit(idx, line))
			asg := &ast.AssignmentStmt{Name: tok(token.IDENTIFIER, arVarNames[dst], line), Value: call, Line: line}
			got, _ := in.eval(asg, env, false)
			i, ok, open := specIndex(idx, maArr[m].n)
			if open {
				return
			}
			if !ok {
				arExpectError(got)
				return
			}
			if !arExpectOK() {
				return
			}
			r := maNew()
			k := 0
			for j := 0; j < maArr[m].n; j++ {
				if j != i {
					maArr[r].elems[k] = maArr[m].elems[j]
					k++
				}
			}
			maArr[r].n = k
			maVar[dst] = r
		}
		arCompare(env)
	}
}

// VH_cyclic (C07): values that contain themselves. A program can build them with plain
// indexed or property assignment; printing, echoing, comparing or concatenating them must
// end normally or with a reported error, never with a host-runtime abort.
func VH_cyclic(which int) {
	in := NewInterpreter()
	env := environment.NewEnvironmentWithParent(in.globals)
	utils.HadError, utils.HadRuntimeError = false, false
	verifClearEvents()
	a, _ := in.eval(&ast.ArrayLiteral{Elements: []ast.Expr{lit(1.0, 1), lit(2.0, 1)}, Line: 1}, env, false)
	b, _ := in.eval(&ast.ArrayLiteral{Elements: []ast.Expr{lit(3.0, 1)}, Line: 1}, env, false)
	o, _ := in.eval(objectLiteralVia(env, lit(1.0, 1)), env, false)
	env.Define("a", a)
	env.Define("b", b)
	env.Define("o", o)
	switch which {
	case 0: // a[0] = a
		in.eval(&ast.ArrayAssignment{Array: ident("a", 2), Index: lit(0.0, 2), Value: ident("a", 2), Line: 2}, env, false)
	case 1: // a[0] = b; b[0] = a
		in.eval(&ast.ArrayAssignment{Array: ident("a", 2), Index: lit(0.0, 2), Value: ident("b", 2), Line: 2}, env, false)
		in.eval(&ast.ArrayAssignment{Array: ident("b", 2), Index: lit(0.0, 2), Value: ident("a", 2), Line: 2}, env, false)
	case 2: // o.self = o
		in.eval(&ast.PropertyAssignment{Object: ident("o", 2), Property: tok(token.IDENTIFIER, "self", 2), Value: ident("o", 2), Line: 2}, env, false)
	default: // a[1] = o; o.arr = a
		in.eval(&ast.ArrayAssignment{Array: ident("a", 2), Index: lit(1.0, 2), Value: ident("o", 2), Line: 2}, env, false)
		in.eval(&ast.PropertyAssignment{Object: ident("o", 2), Property: tok(token.IDENTIFIER, "arr", 2), Value: ident("a", 2), Line: 2}, env, false)
	}
	verifAssert("building-a-self-containing-value-is-not-an-error", !utils.HadRuntimeError)
	target := "a"
	if which == 2 {
		target = "o"
	}
	tv, _ := env.Get(target)
	use := verifChoice(9)
	switch use {
	case 0:
		in.eval(&ast.PrintStatement{Expression: ident(target, 3)}, env, false)
		verifAssert("printing-a-self-containing-value-ends", hvCountStdout() == 1 || utils.HadRuntimeError)
	case 1:
		in.eval(&ast.ExpressionStatement{Expression: ident(target, 3)}, env, true) // REPL echo
		verifAssert("echoing-a-self-containing-value-ends", hvCountStdout() == 1 || utils.HadRuntimeError)
	case 2:
		r := evaluateBinary(tv, tok(token.EQUAL_EQUAL, "==", 3), tv)
		rb, isB := r.(bool)
		verifAssert("self-containing-value-equals-itself", isB && rb)
	case 3:
		evaluateBinary("s", tok(token.PLUS, "+", 3), tv)
		verifAssert("concatenating-a-container-is-an-error-not-a-crash", utils.HadRuntimeError)
	case 4: // every binary operator with the value on either side: an ordinary runtime error
		ty := verifNondetInt(0, int(token.EOF))
		verifAssume(isBinaryOp(token.TokenType(ty)))
		verifAssume(token.TokenType(ty) != token.EQUAL_EQUAL && token.TokenType(ty) != token.BANG_EQUAL)
		if verifNondetBool() {
			evaluateBinary(tv, tok(token.TokenType(ty), "op", 3), 1.0)
		} else {
			evaluateBinary(1.0, tok(token.TokenType(ty), "op", 3), tv)
		}
		verifAssert("operator-on-a-container-is-an-error-not-a-crash", utils.HadRuntimeError)
	case 5: // unary operators
		ty := verifNondetInt(0, int(token.EOF))
		evaluateUnary(tok(token.TokenType(ty), "op", 3), tv)
	case 6: // every math built-in
		w := verifChoice(9)
		in.eval(callNamed(mathNames[w], 3, ident(target, 3)), env, false)
		if w != 7 && w != 8 {
			verifAssert("builtin-on-a-container-is-an-error-not-a-crash", utils.HadRuntimeError)
		}
	case 7: // as an index and as a removal index
		in.eval(&ast.ArrayAccess{Array: ident("b", 3), Index: ident(target, 3), Line: 3}, env, false)
		verifAssert("container-as-index-is-an-error-not-a-crash", utils.HadRuntimeError)
	default: // missing property on it / of it: the diagnostic quotes the expression, not the value
		in.eval(&ast.PropertyAccess{Object: ident(target, 3), Property: tok(token.IDENTIFIER, "nope", 3), Line: 3}, env, false)
		verifAssert("missing-property-on-a-container-is-an-error-not-a-crash", utils.HadRuntimeError)
	}
}

// VH_arrayBig (C11): one step of এড / রিমুভ from an arbitrary valid array representation — n
// elements in storage with `spare` unused slots behind them (what an array literal, or an
// earlier এড, leaves) — for lengths far beyond the histories of VH_array. Two এড calls on the same
// array and one রিমুভ (first, middle or last index), then a write to the argument: every result holds
// exactly the documented elements, then and after the write, and the argument is unchanged.
func VH_arrayBig(n int, spare int) {
	a := make([]interface{}, n, n+spare)
	for i := 0; i < n; i++ {
		a[i] = float64(i)
	}
	// an element that is itself an array: the results must hold that same array, not a copy
	inner := []interface{}{1.5, 2.5}
	if n >= 5 {
		a[1] = inner
	}
	x1, x2, z := verifNondetFloat(), verifNondetFloat(), verifNondetFloat()
	in := NewInterpreter()
	utils.HadRuntimeError = false
	bv, err1 := NativeAppendFn{}.Call(in, []interface{}{a, x1})
	cv, err2 := NativeAppendFn{}.Call(in, []interface{}{a, x2, z})
	verifAssert("append-succeeds", err1 == nil && err2 == nil)
	b, okb := bv.([]interface{})
	c, okc := cv.([]interface{})
	verifAssert("append-returns-an-array", okb && okc)
	if !(okb && okc) {
		return
	}
	verifAssert("append-length", len(b) == n+1 && len(c) == n+2 && len(a) == n)
	if !(len(b) == n+1 && len(c) == n+2) {
		return
	}
	verifAssert("append-holds-the-new-elements", hvIdentical(b[n], x1) && hvIdentical(c[n], x2) && hvIdentical(c[n+1], z))
	var d []interface{}
	k := 0
	if n > 0 {
		k = []int{0, n / 2, n - 1}[verifChoice(3)] // arbitrary indexes are VH_array's; here the ends and the middle
		dv, err3 := NativeRemoveFn{}.Call(in, []interface{}{a, float64(k)})
		var okd bool
		d, okd = dv.([]interface{})
		verifAssert("remove-succeeds", err3 == nil && okd && len(d) == n-1 && len(a) == n)
		if !(okd && len(d) == n-1) {
			return
		}
	}
	if n >= 5 {
		verifAssert("append-result-shares-element-arrays", verifSameObject(b[1], a[1]) && verifSameObject(c[1], a[1]))
		if k != 1 {
			pos := 1
			if k < 1 {
				pos = 0
			}
			verifAssert("remove-result-shares-element-arrays", verifSameObject(d[pos], a[1]))
		}
		inner[0] = z
		ib, okib := b[1].([]interface{})
		verifAssert("append-result-sees-writes-to-a-shared-element", okib && len(ib) == 2 && hvIdentical(ib[0], z))
	}
	// positions that matter: both ends, the removal point and its neighbours
	probe := []int{0, n - 1, n / 2}
	if n > 0 {
		a[0] = z
		a[n-1] = z
		b[n/2] = z
	}
	for _, p := range probe {
		if p < 0 || p >= n {
			continue
		}
		want := interface{}(float64(p))
		if p != n/2 {
			verifAssert("append-result-unaffected-by-later-writes", hvIdentical(b[p], want))
		}
		verifAssert("append-result-unaffected-by-later-writes", hvIdentical(c[p], want))
	}
	if n > 0 {
		verifAssert("append-result-keeps-its-new-element", hvIdentical(b[n], x1) && hvIdentical(c[n], x2))
		for _, p := range []int{0, n - 2, n / 2} {
			if p < 0 || p >= n-1 {
				continue
			}
			src := p
			if p >= k {
				src = p + 1
			}
			if src == 1 && n >= 5 {
				continue // the element array, checked above
			}
			verifAssert("remove-result-holds-the-other-elements-in-order", hvIdentical(d[p], float64(src)))
		}
	}
}

// badIndexTexts: strings that are not whole numbers — fractional numerals in either script,
// negative fractions that truncate to 0, non-numeric text, the empty string.
var badIndexTexts = []string{"1.5", "-0.5", "2.9", "\u09e6.\u09eb", "\u09e7.\u09ef", "abc", "", "0.999"}

// VH_stringIndex (C11): an index given as a string that is not a whole number is fractional or
// non-numeric whatever the code makes of numeric strings: reading, writing and রিমুভ with it are
// runtime errors and leave the array as it was.
func VH_stringIndex(op int) {
	in := NewInterpreter()
	env := environment.NewEnvironmentWithParent(in.globals)
	a := []interface{}{10.0, 20.0, 30.0}
	env.Define("a", a)
	s := badIndexTexts[verifChoice(len(badIndexTexts))]
	idx := lit(stringLiteralValue([]rune(s)), 3)
	var node ast.Expr
	switch op {
	case 0:
		node = &ast.ArrayAccess{Array: ident("a", 3), Index: idx, Line: 3}
	case 1:
		node = &ast.ArrayAssignment{Array: ident("a", 3), Index: idx, Value: lit(99.0, 3), Line: 3}
	default:
		node = &ast.Call{Callee: &ast.Literal{Value: NativeRemoveFn{}, Line: 3}, Paren: tok(token.RIGHT_PAREN, ")", 3), Arguments: []ast.Expr{ident("a", 3), idx}}
	}
	utils.HadError, utils.HadRuntimeError = false, false
	verifClearEvents()
	got, _ := in.eval(node, env, false)
	verifAssert("bad-index-is-an-error", utils.HadRuntimeError && got == nil && hvCountStderr() >= 1)
	verifAssert("failed-operation-leaves-the-array-unchanged", len(a) == 3 && hvIdentical(a[0], 10.0) && hvIdentical(a[1], 20.0) && hvIdentical(a[2], 30.0))
}
