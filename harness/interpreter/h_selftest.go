package interpreter

// Translator validation (DESIGN §2.9 / I.2): whole programs — the repository's shipped example
// scripts and some extra shapes — run through the real lexer, parser and Interpret, once from
// SSA inside the symbolic executor and once natively; everything they print, their
// diagnostics and the two flags must be identical.

import (
	"fmt"

	"github.com/ah-naf/borno/lexer"
	"github.com/ah-naf/borno/parser"
	"github.com/ah-naf/borno/utils"
)

var verifExtraPrograms = []string{
	kwPrint + " 1 + 2 * 3 ** 2 - 8 / 4 % 3;",
	kwPrint + " (7 & 3) | (1 << 4) ^ ~5;",
	kwPrint + " \"a\" + 1 + 2.5 + \"b\";\n" + kwPrint + " 1e21;\n" + kwPrint + " 1000000;\n" + kwPrint + " 0.1 + 0.2;",
	kwVar + " a = [1, \"x\", nil, [2]];\n" + kwPrint + " a;\na[3][0] = {k: 1};\n" + kwPrint + " a[3][0].k;",
	kwPrint + " nil == nil;\n" + kwPrint + " 1 == \"1\";\n" + kwPrint + " [1] == [1];\n" + kwPrint + " !\"\";",
	kwPrint + " 1 / 0;\n" + kwPrint + " 2;",
	kwVar + " i = 0;\n" + kwWhile + " (i < 3) { i = i + 1; " + kwIf + " (i == 2) { " + kwPrint + " \"two\"; } }\n" + kwPrint + " i;",
	kwFun + " f(n) { " + kwIf + " (n < 2) { " + kwReturn + " n; } " + kwReturn + " f(n - 1) + f(n - 2); }\n" + kwPrint + " f(10);",
	kwPrint + " x;",
	kwPrint + " @;",
	kwPrint + " (1 + ;",
}

func VH_selftest() {
	progs := append(append([]string{}, verifExamples...), verifExtraPrograms...)
	for _, src := range progs {
		utils.HadError, utils.HadRuntimeError = false, false
		verifClearEvents()
		toks := lexer.NewScanner([]rune(src)).ScanTokens()
		stmts, _ := parser.NewParser(toks).Parse()
		if !utils.HadError {
			NewInterpreter().Interpret(stmts, false)
		}
		for i := 0; i < verifNumEvents(); i++ {
			verifRecord(fmt.Sprintf("%d:%s", verifEventKind(i), verifEventText(i)))
		}
		verifRecord(fmt.Sprintf("flags %v %v", utils.HadError, utils.HadRuntimeError))
	}
}
