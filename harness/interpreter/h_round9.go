package interpreter

// Harnesses added after the ninth seeding round (DESIGN I.6). Each drives the construct
// through the real lexer, parser and evaluator (runSource); the symbolic part is the
// spelling / position / shape choice, decided by the solver like any other branch.

import "strings"

const (
	biLen    = "\u09b2\u09c7\u09a8"
	biKeys   = "\u0985\u09ac\u09cd\u099c\u09c7\u0995\u09cd\u099f_\u0995\u09bf"
	biValues = "\u0985\u09ac\u09cd\u099c\u09c7\u0995\u09cd\u099f_\u09ae\u09be\u09a8"
	biDelete = "\u0995\u09bf_\u09b0\u09bf\u09ae\u09c1\u09ad"
	biAbs    = "\u09aa\u09b0\u09ae\u09ae\u09be\u09a8"
	biPow    = "\u0998\u09be\u09a4"
	biAppend = "\u098f\u09a1"
)

// keySpellings: property names made of plain letters, letters followed by digits of either
// script, an underscore, and code points NFC would rewrite. A name in the source and the same
// characters as a string value denote the same key.
var keySpellings = []string{"k", "k2", "\u0996\u09e8", "\u0997\u09e9\u0995", "a_\u09e7", "\u09df\u09e6", "K"}

// VH_keySpelling (C12): a property created by the literal and one created by assignment are
// found again under the same characters given as a string (delete, key listing), whatever
// the characters are.
func VH_keySpelling() {
	i := verifChoice(len(keySpellings))
	j := verifChoice(len(keySpellings))
	if i == j {
		verifAssume(false)
	}
	k, m := keySpellings[i], keySpellings[j]
	src := kwVar + " o = { " + k + ": 1 };\n" +
		"o." + m + " = 2;\n" +
		kwPrint + " " + biLen + "(" + biKeys + "(o));\n" +
		biDelete + "(o, \"" + m + "\");\n" +
		kwPrint + " " + biKeys + "(o)[0] == \"" + k + "\";\n" +
		kwPrint + " o." + k + ";\n" +
		biDelete + "(o, \"" + k + "\");\n" +
		kwPrint + " " + biLen + "(" + biKeys + "(o));\n"
	got, ok := runSource(src)
	verifAssert("key-program-runs", ok)
	verifAssert("property-found-under-its-own-characters", sameLines(got, []string{"2", "true", "1", "0"}))
}

// callNames: names a parameter or local function value may bear, among them the names of
// built-ins (only `ধরি`/`ফাংশন` declarations of those are rejected; parameters are not).
var callNames = []string{"g", biLen, biAbs, biPow, biAppend, biKeys}

// VH_callThroughName (C18d, C03, C04): a call `N(x)` resolves N like any other read — the
// innermost visible binding — whatever N is spelled like; renaming the parameter
// consistently does not change what is printed, nor do parentheses around the callee.
func VH_callThroughName() {
	n := callNames[verifChoice(len(callNames))]
	callee := n
	if verifChoice(2) == 1 {
		callee = "(" + n + ")"
	}
	src := kwFun + " two(v) { " + kwReturn + " v[0] + v[1]; }\n" +
		kwFun + " apply(" + n + ", x) { " + kwReturn + " " + callee + "(x); }\n" +
		kwPrint + " apply(two, [20, 22, 7]);\n"
	got, ok := runSource(src)
	verifAssert("scope-program-runs", ok)
	verifAssert("read-yields-the-innermost-visible-binding", sameLines(got, []string{"42"}))
	verifAssert("renaming-does-not-change-what-is-printed", sameLines(got, []string{"42"}))
}

// VH_declList (C03): in a comma-separated declaration each initialiser is evaluated when its
// own name is declared: it sees the names declared before it in the same list (and an outer
// binding of a name declared later in the list, or nothing).
func VH_declList() {
	switch verifChoice(4) {
	case 0:
		got, ok := runSource(kwVar + " a = 10;\n{ " + kwVar + " a = 1, b = a + 1; " + kwPrint + " b; }\n" + kwPrint + " a;\n")
		verifAssert("scope-program-runs", ok)
		verifAssert("read-yields-the-innermost-visible-binding", sameLines(got, []string{"2", "10"}))
	case 1:
		got, ok := runSource(kwVar + " p = 1, q = p + 1, r = q + p;\n" + kwPrint + " r;\n")
		verifAssert("scope-program-runs", ok)
		verifAssert("read-yields-the-innermost-visible-binding", sameLines(got, []string{"3"}))
	case 2:
		// a later name is not yet visible to an earlier initialiser: the outer one is read
		got, ok := runSource(kwVar + " b = 5;\n{ " + kwVar + " a = b, b = 7; " + kwPrint + " a; " + kwPrint + " b; }\n")
		verifAssert("scope-program-runs", ok)
		verifAssert("read-yields-the-innermost-visible-binding", sameLines(got, []string{"5", "7"}))
	default:
		// ... and without an outer one the read is an error, before anything is printed
		got, ok := runSource(kwPrint + " \"s\";\n" + kwVar + " a = b, b = 7;\n" + kwPrint + " a;\n")
		verifAssert("scope-error-reported", !ok)
		verifAssert("read-yields-the-innermost-visible-binding", sameLines(got, []string{"s"}))
	}
}

// literalConds: conditions written as literals in the source, with their truthiness (DESIGN E.5).
var literalConds = []struct {
	src    string
	truthy bool
}{
	{"\"\"", false}, {"\"a\"", true}, {"0", false}, {"\u09e6", false}, {"1", true}, {"0.0", false},
	{"\u09ae\u09bf\u09a5\u09cd\u09af\u09be", false}, {"\u09b8\u09a4\u09cd\u09af", true}, {"nil", false}, {"[]", true}, {"\" \"", true},
}

// VH_literalConditions (C05, C14): a condition written as a literal decides an `if`, a `while`
// and a `for` exactly as the same value does when it is computed: by the truthiness of the
// value (an empty string literal is falsy wherever it stands), alone, in parentheses, or
// under `!`.
func VH_literalConditions() {
	lc := literalConds[verifChoice(len(literalConds))]
	c, t := lc.src, lc.truthy
	switch verifChoice(3) {
	case 1:
		c = "(" + c + ")"
	case 2:
		c, t = "!" + c, !t
	}
	kwBrk := "\u09a5\u09be\u09ae\u09cb"
	var src string
	var want []string
	switch verifChoice(4) {
	case 0:
		src = kwIf + " (" + c + ") { " + kwPrint + " \"t\"; } " + kwElse + " { " + kwPrint + " \"e\"; }\n" + kwPrint + " \"d\";\n"
		want = []string{"e", "d"}
	case 1:
		src = kwWhile + " (" + c + ") { " + kwPrint + " \"t\"; " + kwBrk + "; }\n" + kwPrint + " \"d\";\n"
		want = []string{"d"}
	case 2:
		src = kwFor + " (; " + c + "; ) { " + kwPrint + " \"t\"; " + kwBrk + "; }\n" + kwPrint + " \"d\";\n"
		want = []string{"d"}
	default:
		// two passes: the condition is a literal, the loop ends through the counter
		src = kwVar + " n = 0;\n" + kwFor + " (" + kwVar + " i = 0; " + c + "; i = i + 1) { n = n + 1; " + kwIf + " (i == 1) { " + kwBrk + "; } }\n" + kwPrint + " n;\n"
		want = []string{"0"}
		if t {
			want = []string{"2"}
		}
	}
	if t && len(want) > 0 && want[0] != "2" && want[0] != "0" {
		want = []string{"t", "d"}
	}
	got, ok := runSource(src)
	verifAssert("cond-program-runs", ok)
	if t {
		verifAssert("truthy-condition-runs-the-body", sameLines(got, want))
	} else {
		verifAssert("falsy-condition-skips-the-body", sameLines(got, want))
	}
}

// VH_calleeShapes (C04, C07, C06): a call whose callee is a name, a parenthesised name, an
// array element, a property, or the result of another call, with the right number of
// arguments, one fewer, or one more: the right count yields the value; any other count is a
// runtime error reported once (no value, nothing printed afterwards, no abnormal end).
func VH_calleeShapes() {
	callees := []string{"add", "(add)", "fs[0]", "fs[1 - 1]", "o.f", "mk()", "(fs[0])", "(o).f"}
	callee := callees[verifChoice(len(callees))]
	args := []string{"(1)", "(1, 2)", "(1, 2, 3)", "()"}
	na := verifChoice(len(args))
	src := kwFun + " add(a, b) { " + kwReturn + " a + b; }\n" +
		kwFun + " mk() { " + kwReturn + " add; }\n" +
		kwVar + " fs = [add];\n" + kwVar + " o = { f: add };\n" +
		kwPrint + " \"s\";\n" +
		kwPrint + " " + callee + args[na] + ";\n" +
		kwPrint + " \"after\";\n"
	got, ok := runSource(src)
	if na == 1 {
		verifAssert("call-program-runs", ok)
		verifAssert("call-yields-the-returned-value", sameLines(got, []string{"s", "3", "after"}))
	} else {
		verifAssert("arity-mismatch-is-a-runtime-error", !ok)
		verifAssert("arity-mismatch-prints-nothing-more", sameLines(got, []string{"s"}))
	}
}

// VH_faultInLoop (C06): a loop that only a fault ends — every way of writing "forever"
// (`for` with the condition left out, with and without the other clauses; `for`/`while` with
// a constant condition), the fault in the body, in the increment, or in a function called
// from the body — is over at its first diagnostic: what was printed before stays, nothing
// follows, the run ends.
func VH_faultInLoop() {
	kwTrue := "\u09b8\u09a4\u09cd\u09af"
	heads := []string{
		kwFor + " (" + kwVar + " i = 0;; i = i + 1)",
		kwFor + " (;;)",
		kwFor + " (" + kwVar + " i = 0;;)",
		kwFor + " (;; n = n + 1)",
		kwFor + " (; " + kwTrue + ";)",
		kwWhile + " (" + kwTrue + ")",
		kwFor + " (;; n = a[n])",
	}
	head := heads[verifChoice(len(heads))]
	bodies := []string{
		"{ " + kwPrint + " a[n]; n = n + 1; }",
		"{ " + kwPrint + " get(n); n = n + 1; }",
		"{ " + kwPrint + " a[n]; n = n + 1; " + kwIf + " (n > 1) { undefinedName = 1; } }",
	}
	body := bodies[verifChoice(len(bodies))]
	src := kwVar + " a = [10, 20];\n" + kwVar + " n = 0;\n" +
		kwFun + " get(k) { " + kwReturn + " a[k]; }\n" +
		head + " " + body + "\n" + kwPrint + " \"after\";\n"
	got, ok := runSource(src)
	verifAssert("runtime-error-ends-the-loop", !ok)
	verifAssert("nothing-printed-after-first-diagnostic", len(got) >= 1 && len(got) <= 2 && got[0] == "10" && (len(got) == 1 || got[1] == "20"))
}

// VH_returnedLiteral (C02, C16, C04): what a function hands back is the value its `return`
// expression denotes, however that expression is written — a literal directly, in
// parentheses, through a variable, from inside an if or a loop — and the operators treat the
// call's result like the same value written in place: strings compare by content, numeric
// strings coerce, text + boolean is an error.
func VH_returnedLiteral() {
	kwTrue := "\u09b8\u09a4\u09cd\u09af"
	kwBrk := "\u09a5\u09be\u09ae\u09cb"
	shape := verifChoice(5) // one way of writing the return for all of the functions
	ret := func(name, lit string) string {
		switch shape {
		case 0:
			return kwFun + " " + name + "() { " + kwReturn + " " + lit + "; }\n"
		case 1:
			return kwFun + " " + name + "() { " + kwReturn + " (" + lit + "); }\n"
		case 2:
			return kwFun + " " + name + "() { " + kwVar + " v = " + lit + "; " + kwReturn + " v; }\n"
		case 3:
			return kwFun + " " + name + "() { " + kwIf + " (1) { " + kwReturn + " " + lit + "; } " + kwReturn + " 0; }\n"
		default:
			return kwFun + " " + name + "() { " + kwWhile + " (1) { " + kwReturn + " " + lit + "; " + kwBrk + "; } }\n"
		}
	}
	src := ret("s", "\"ok\"") + ret("five", "\"5\"") + ret("n", "5") + ret("t", kwTrue) + ret("z", "nil") + ret("e", "\"\"") +
		kwPrint + " s() == \"ok\";\n" + kwPrint + " \"ok\" == s();\n" + kwPrint + " s() != \"ok\";\n" + kwPrint + " s() == s();\n" +
		kwPrint + " five() * 2;\n" + kwPrint + " five() < 6;\n" + kwPrint + " s() + \"!\";\n" + kwPrint + " 1 + s();\n" +
		kwPrint + " n() == 5;\n" + kwPrint + " z() == nil;\n" + kwPrint + " t() == " + kwTrue + ";\n" +
		kwIf + " (e()) { " + kwPrint + " \"truthy\"; } " + kwElse + " { " + kwPrint + " \"falsy\"; }\n"
	got, ok := runSource(src)
	verifAssert("bin-program-runs", ok)
	verifAssert("bin-result-of-returned-literal", sameLines(got, []string{"true", "true", "false", "true", "10", "true", "ok!", "1ok", "true", "true", "true", "falsy"}))
	got, ok = runSource(ret("s", "\"ok\"") + kwPrint + " \"b\";\n" + kwPrint + " s() + " + kwTrue + ";\n" + kwPrint + " \"after\";\n")
	verifAssert("bin-error-reported", !ok)
	verifAssert("bin-error-yields-no-value", sameLines(got, []string{"b"}))
}

var _ = strings.TrimSpace
