package interpreter

// Probes (DESIGN §2.7): an arbitrary sub-expression is represented by a call of a harness
// Callable whose outcome on its j-th evaluation — a value of any kind, or a failure — is
// drawn in advance. The real eval runs on a real AST; only the probe's Call is harness code.

import (
	"github.com/ah-naf/borno/ast"
	"github.com/ah-naf/borno/token"
)

const (
	vpMaxProbes = 16
	vpMaxCalls  = 6
)

type verifProbe struct{ k int }

type vpError struct{}

func (vpError) Error() string { return "probe failure" }

var (
	vpVals   [vpMaxProbes][vpMaxCalls]interface{}
	vpFail   [vpMaxProbes][vpMaxCalls]bool
	vpCalls  [vpMaxProbes]int
	vpSpec   [vpMaxProbes]int // evaluation counters of the reference semantics
	vpLimit  int
	vpN      int
	vpLines  [vpMaxProbes]int
	vpNoFail bool
)

func (p verifProbe) Call(i *Interpreter, args []interface{}) (interface{}, error) {
	j := vpCalls[p.k]
	vpCalls[p.k] = j + 1
	verifEvent(p.k, j)
	stOnProbe(p.k, j)
	if j >= vpLimit {
		if vpNoRepeat {
			// a harness without loops: nothing may be evaluated more often than it has outcomes
			verifAssert("operand-evaluated-in-reading-order-once", false)
		}
		verifAssume(false) // beyond the drawn outcomes: outside the bound (recorded as a cut)
	}
	if vpFail[p.k][j] {
		return nil, vpError{}
	}
	return vpVals[p.k][j], nil
}

func (p verifProbe) Arity() int     { return 0 }
func (p verifProbe) String() string { return "<probe>" }

// vpReset prepares the probe tables: limit outcomes per probe, values drawn by mode:
// mode 0: booleans only (control-flow harnesses: only truthiness matters);
// mode 1: any value kind, payload size 0; mode 2: any value kind, payload size 1.
func vpReset(limit int, mode int, mayFail bool) {
	vpLimit = limit
	vpN = 0
	vpNoFail = !mayFail
	vpNoRepeat = false
	for k := 0; k < vpMaxProbes; k++ {
		vpCalls[k] = 0
		vpSpec[k] = 0
	}
	_ = mode
}

// vpNew creates probe number vpN with its outcomes and returns the expression node.
// vpNoRepeat: set by harnesses whose node evaluates every probe at most vpLimit times by
// construction (no loops): an evaluation beyond that is a violation, not a bound.
var vpNoRepeat bool

func vpNew(mode int, mask int, line int) ast.Expr {
	k := vpN
	vpN++
	vpLines[k] = line
	for j := 0; j < vpLimit; j++ {
		if vpNoFail {
			vpFail[k][j] = false
		} else {
			vpFail[k][j] = verifNondetBool()
		}
		switch mode {
		case 0:
			vpVals[k][j] = verifNondetBool()
		case 1:
			vpVals[k][j] = hvValue(mask, 0)
		default:
			vpVals[k][j] = hvValue(mask, 1)
		}
	}
	return &ast.Call{Callee: &ast.Literal{Value: verifProbe{k}, Line: line}, Paren: token.Token{Type: token.RIGHT_PAREN, Lexeme: ")", Line: line}}
}

// probeIndex: which probe an expression node is (-1 if it is not a probe call).
func probeIndex(e ast.Expr) int {
	c, ok := e.(*ast.Call)
	if !ok {
		return -1
	}
	l, ok := c.Callee.(*ast.Literal)
	if !ok {
		return -1
	}
	p, ok := l.Value.(verifProbe)
	if !ok {
		return -1
	}
	return p.k
}

// ---- reference semantics (DESIGN E.3) ----

const (
	cNormal = iota
	cBreak
	cContinue
	cReturn
	cError
)

// expected events of the reference run: (probe, invocation) pairs, then at most one error
var (
	rfProbe [64]int
	rfCall  [64]int
	rfN     int
	rfErr   bool
	rfRet   interface{}
)

func rfReset() {
	rfN = 0
	rfErr = false
	rfRet = nil
}

// refEval evaluates a probe expression in the reference: (value, failed)
func refEval(e ast.Expr) (interface{}, bool) {
	k := probeIndex(e)
	if k < 0 {
		if l, ok := e.(*ast.Literal); ok {
			return l.Value, false
		}
		verifAssume(false)
		return nil, true
	}
	j := vpSpec[k]
	vpSpec[k] = j + 1
	if j >= vpLimit {
		verifAssume(false) // unwinding assumption: the reference needs more outcomes than drawn
	}
	if rfN < 64 {
		rfProbe[rfN] = k
		rfCall[rfN] = j
		rfN++
	}
	if vpFail[k][j] {
		rfErr = true
		return nil, true
	}
	return vpVals[k][j], false
}

func refExec(s ast.Stmt) int {
	switch n := s.(type) {
	case *ast.ExpressionStatement:
		_, failed := refEval(n.Expression)
		if failed {
			return cError
		}
		return cNormal
	case *ast.PrintStatement:
		_, failed := refEval(n.Expression)
		if failed {
			return cError
		}
		return cNormal
	case *ast.IfStmt:
		v, failed := refEval(n.Condition)
		if failed {
			return cError
		}
		if specTruthy(v) {
			return refExec(n.ThenBranch)
		}
		if n.ElseBranch != nil {
			return refExec(n.ElseBranch)
		}
		return cNormal
	case *ast.While:
		for it := 0; ; it++ {
			if it > vpLimit {
				verifAssume(false) // more iterations than the bound
			}
			v, failed := refEval(n.Condition)
			if failed {
				return cError
			}
			if !specTruthy(v) {
				return cNormal
			}
			c := refExec(n.Body)
			if c == cBreak {
				return cNormal
			}
			if c == cReturn {
				return c
			}
			if c == cError {
				return c
			}
		}
	case *ast.ForStmt:
		if n.Initializer != nil {
			c := refExec(n.Initializer)
			if c != cNormal {
				return c
			}
		}
		for it := 0; ; it++ {
			if it > vpLimit {
				verifAssume(false) // more iterations than the bound
			}
			if n.Condition != nil {
				v, failed := refEval(n.Condition)
				if failed {
					return cError
				}
				if !specTruthy(v) {
					return cNormal
				}
			}
			c := refExec(n.Body)
			if c == cBreak {
				return cNormal
			}
			if c == cReturn {
				return c
			}
			if c == cError {
				return c
			}
			if n.Increment != nil {
				_, failed := refEval(n.Increment)
				if failed {
					return cError
				}
			}
		}
	case *ast.BlockStmt:
		for _, st := range n.Block {
			c := refExec(st)
			if c != cNormal {
				return c
			}
		}
		return cNormal
	case *ast.BreakStmt:
		return cBreak
	case *ast.ContinueStmt:
		return cContinue
	case *ast.Return:
		if n.Value != nil {
			v, failed := refEval(n.Value)
			if failed {
				return cError
			}
			rfRet = v
		} else {
			rfRet = nil
		}
		return cReturn
	}
	verifAssume(false)
	return cError
}
