package interpreter

// Statement-level harnesses (C04, C05, C06, C14 order, C18f): the real eval / Interpret /
// Function.Call on real ASTs whose leaves are probes, compared event by event with the
// reference semantics refExec (DESIGN E.3). The reference runs first and records the
// expected sequence of evaluations; every probe evaluation of the implementation is checked
// online against it, so that a deviation is caught even when the implementation would then
// loop forever.

import (
	"github.com/ah-naf/borno/ast"
	"github.com/ah-naf/borno/environment"
	"github.com/ah-naf/borno/token"
	"github.com/ah-naf/borno/utils"
)

var (
	stLine   int  // next source line handed out
	stOnline bool // online checking active
	stPos    int  // number of reference events matched so far
)

func stNextLine() int {
	stLine++
	return stLine
}

func stProbe() ast.Expr { return vpNew(0, 0, stNextLine()) }

// genStmt enumerates statement shapes by forking (verifChoice).
func genStmt(depth int, loopOnly bool) ast.Stmt {
	n := 5
	if depth > 0 {
		n = 11
	}
	c := verifChoice(n)
	switch c {
	case 0:
		return &ast.ExpressionStatement{Expression: stProbe()}
	case 1:
		return &ast.BreakStmt{Line: stNextLine()}
	case 2:
		return &ast.ContinueStmt{Line: stNextLine()}
	case 3:
		l := stNextLine()
		return &ast.Return{Keyword: token.Token{Type: token.RETURN, Lexeme: "return", Line: l}, Value: vpNew(0, 0, l)}
	case 4:
		return &ast.PrintStatement{Expression: stProbe()}
	case 5:
		cond := stProbe()
		return &ast.IfStmt{Condition: cond, ThenBranch: genStmt(depth-1, false)}
	case 6:
		cond := stProbe()
		th := genStmt(depth-1, false)
		return &ast.IfStmt{Condition: cond, ThenBranch: th, ElseBranch: genStmt(depth-1, false)}
	case 7:
		var cond ast.Expr
		if verifChoice(2) == 0 {
			cond = stProbe()
		} else {
			cond = &ast.Literal{Value: true, Line: stNextLine()} // endless unless left by break/return
		}
		return &ast.While{Condition: cond, Body: genStmt(depth-1, false)}
	case 8:
		// every combination of present/absent initializer and increment; the parser supplies a
		// literal true for an omitted condition
		var init ast.Stmt
		var cond, inc ast.Expr
		v := verifChoice(8)
		if v&1 != 0 {
			init = &ast.ExpressionStatement{Expression: stProbe()}
		}
		if v&2 != 0 {
			cond = stProbe()
		} else {
			cond = &ast.Literal{Value: true}
		}
		if v&4 != 0 {
			inc = stProbe()
		}
		return &ast.ForStmt{Initializer: init, Condition: cond, Increment: inc, Body: genStmt(depth-1, false)}
	case 9:
		a := genStmt(depth-1, false)
		b := genStmt(depth-1, false)
		return &ast.BlockStmt{Block: []ast.Stmt{a, b}}
	default:
		// else-if chain: if (P) L else if (P) L [else L] — the else branch is directly an if
		c1 := stProbe()
		t1 := genStmt(0, false)
		c2 := stProbe()
		t2 := genStmt(0, false)
		inner := &ast.IfStmt{Condition: c2, ThenBranch: t2}
		if verifChoice(2) == 1 {
			inner.ElseBranch = genStmt(0, false)
		}
		return &ast.IfStmt{Condition: c1, ThenBranch: t1, ElseBranch: inner}
	}
}

// online check performed by every probe evaluation (called from verifProbe.Call through the
// hook below) and by the harness for prints.
func stOnProbe(k int, j int) {
	if !stOnline {
		return
	}
	verifAssert("no-evaluation-after-first-diagnostic", hvCountStderr() == 0)
	if hvCountStderr() != 0 {
		return
	}
	for stPos < rfN {
		if rfProbe[stPos] != -1 {
			break
		}
		stPos++ // prints are matched after the run
	}
	ok := stPos < rfN
	if ok {
		ok = rfProbe[stPos] == k
	}
	if ok {
		ok = rfCall[stPos] == j
	}
	verifAssert("evaluation-sequence-as-reference", ok)
	stPos++
}

// matchEvents compares the complete event list of the implementation with the reference
// after the run: probes in reference order, a print's stdout right after its operand, and
// (on failure) the first diagnostic right after the failing probe, naming its line.
func matchEvents(wantErr bool, strayLine int, stray bool) {
	n := verifNumEvents()
	t := 0 // index into the reference events
	sawErr := false
	for i := 0; i < n; i++ {
		kind := verifEventKind(i)
		if sawErr {
			verifAssert("nothing-printed-after-first-diagnostic", kind != 1)
			verifAssert("nothing-evaluated-after-first-diagnostic", kind != 3)
			continue
		}
		switch kind {
		case 3:
			ok := t < rfN
			if ok {
				ok = rfProbe[t] == verifEventA(i)
			}
			if ok {
				ok = rfCall[t] == verifEventB(i)
			}
			verifAssert("evaluations-match-reference", ok)
			t++
		case 1:
			ok := t < rfN
			if ok {
				ok = rfProbe[t] == -1
			}
			verifAssert("print-matches-reference", ok)
			t++
		case 2:
			sawErr = true
			verifAssert("diagnostic-only-when-expected", wantErr || stray)
			if wantErr {
				verifAssert("first-diagnostic-follows-the-failing-evaluation", t == rfN)
				if t == rfN && rfN > 0 {
					verifAssert("first-diagnostic-names-the-failing-line", verifEventB(i) == vpLines[rfProbe[rfN-1]])
				}
			} else if stray {
				verifAssert("stray-signal-diagnosed-after-all-evaluations", t == rfN)
				verifAssert("stray-signal-diagnostic-names-its-line", verifEventB(i) == strayLine)
			}
		}
	}
	if !sawErr {
		verifAssert("all-reference-events-happened", t == rfN)
		verifAssert("missing-diagnostic", !wantErr && !stray)
	}
	verifAssert("flag-iff-diagnostic", utils.HadRuntimeError == sawErr)
}

// strayLineOf finds the line of the statement whose signal escapes (first break/continue/
// return reached by the reference): recorded by refExec through rfStrayLine.
var rfStrayLine int

func refExecTop(body []ast.Stmt) int {
	for _, s := range body {
		c := refExecTrack(s)
		if c != cNormal {
			return c
		}
	}
	return cNormal
}

// refExecTrack is refExec that also records prints and the line of an escaping signal.
func refExecTrack(s ast.Stmt) int {
	switch n := s.(type) {
	case *ast.PrintStatement:
		_, failed := refEval(n.Expression)
		if failed {
			return cError
		}
		if rfN < 64 {
			rfProbe[rfN] = -1
			rfCall[rfN] = 0
			rfN++
		}
		return cNormal
	case *ast.IfStmt:
		v, failed := refEval(n.Condition)
		if failed {
			return cError
		}
		if specTruthy(v) {
			return refExecTrack(n.ThenBranch)
		}
		if n.ElseBranch != nil {
			return refExecTrack(n.ElseBranch)
		}
		return cNormal
	case *ast.While:
		for it := 0; ; it++ {
			if it > vpLimit {
				verifAssume(false) // more iterations than the bound
			}
			v, failed := refEval(n.Condition)
			if failed {
				return cError
			}
			if !specTruthy(v) {
				return cNormal
			}
			c := refExecTrack(n.Body)
			if c == cBreak {
				return cNormal
			}
			if c == cReturn {
				return c
			}
			if c == cError {
				return c
			}
		}
	case *ast.ForStmt:
		if n.Initializer != nil {
			c := refExecTrack(n.Initializer)
			if c != cNormal {
				return c
			}
		}
		for it := 0; ; it++ {
			if it > vpLimit {
				verifAssume(false) // more iterations than the bound
			}
			if n.Condition != nil {
				v, failed := refEval(n.Condition)
				if failed {
					return cError
				}
				if !specTruthy(v) {
					return cNormal
				}
			}
			c := refExecTrack(n.Body)
			if c == cBreak {
				return cNormal
			}
			if c == cReturn {
				return c
			}
			if c == cError {
				return c
			}
			if n.Increment != nil {
				_, failed := refEval(n.Increment)
				if failed {
					return cError
				}
			}
		}
	case *ast.BlockStmt:
		for _, st := range n.Block {
			c := refExecTrack(st)
			if c != cNormal {
				return c
			}
		}
		return cNormal
	case *ast.BreakStmt:
		rfStrayLine = n.Line
		return cBreak
	case *ast.ContinueStmt:
		rfStrayLine = n.Line
		return cContinue
	case *ast.Return:
		rfStrayLine = n.Keyword.Line
		if n.Value != nil {
			v, failed := refEval(n.Value)
			if failed {
				return cError
			}
			rfRet = v
		} else {
			rfRet = nil
		}
		return cReturn
	}
	return refExec(s)
}

// VH_stmt: ctx 0 = top level through Interpret; ctx 1 = function body through the Call node.
// depth = nesting depth of the generated statement; limit = outcomes drawn per probe (loop
// bound: a probe evaluated more than `limit` times is outside the bound).
func VH_stmt(ctx int, depth int, limit int) {
	vpReset(limit, 0, true)
	stLine = 0
	s := genStmt(depth, false)
	runStmtProgram(ctx, s)
}

// VH_emptyArm (C05): arms and bodies that are empty blocks. An empty arm is still the arm that
// was chosen: nothing runs, and in particular not the other arm.
func VH_emptyArm(ctx int, limit int) {
	vpReset(limit, 0, true)
	stLine = 0
	empty := func() ast.Stmt { return &ast.BlockStmt{} }
	var s ast.Stmt
	switch verifChoice(6) {
	case 0:
		s = &ast.IfStmt{Condition: stProbe(), ThenBranch: empty(), ElseBranch: genStmt(0, false)}
	case 1:
		c := stProbe()
		th := genStmt(0, false)
		s = &ast.IfStmt{Condition: c, ThenBranch: th, ElseBranch: empty()}
	case 2:
		c1 := stProbe()
		c2 := stProbe()
		t2 := genStmt(0, false)
		s = &ast.IfStmt{Condition: c1, ThenBranch: empty(), ElseBranch: &ast.IfStmt{Condition: c2, ThenBranch: t2, ElseBranch: genStmt(0, false)}}
	case 3:
		c1 := stProbe()
		t1 := genStmt(0, false)
		c2 := stProbe()
		s = &ast.IfStmt{Condition: c1, ThenBranch: t1, ElseBranch: &ast.IfStmt{Condition: c2, ThenBranch: empty(), ElseBranch: genStmt(0, false)}}
	case 4:
		s = &ast.While{Condition: stProbe(), Body: empty()}
	default:
		s = &ast.IfStmt{Condition: stProbe(), ThenBranch: empty()}
	}
	runStmtProgram(ctx, s)
}

func runStmtProgram(ctx int, s ast.Stmt) {
	tail := &ast.ExpressionStatement{Expression: stProbe()}
	body := []ast.Stmt{s, tail}
	rfReset()
	rfStrayLine = 0
	c := refExecTop(body)
	utils.HadError = false
	utils.HadRuntimeError = false
	verifClearEvents()
	stOnline = true
	stPos = 0
	in := NewInterpreter()
	if ctx == 0 {
		in.Interpret(body, false)
		stOnline = false
		stray := c == cBreak || c == cContinue || c == cReturn
		matchEvents(c == cError, rfStrayLine, stray)
		return
	}
	// function context
	if c == cBreak || c == cContinue {
		verifReach("open-signal-escaping-function")
		return // a break/continue escaping a function body: not specified (E.3)
	}
	callLine := stNextLine()
	fn := NewFunction(&ast.FunctionStmt{Name: token.Token{Type: token.IDENTIFIER, Lexeme: "f", Line: 1}, Body: body}, environment.NewEnvironment())
	call := &ast.Call{Callee: &ast.Literal{Value: fn, Line: callLine}, Paren: token.Token{Type: token.RIGHT_PAREN, Lexeme: ")", Line: callLine}}
	env := environment.NewEnvironmentWithParent(environment.NewEnvironment())
	got, sig := in.eval(call, env, false)
	stOnline = false
	verifAssert("call-returns-a-signal", sig != nil)
	if sig != nil {
		verifAssert("call-expression-raises-no-control-signal", sig.Type == ControlFlowNone)
	}
	matchEvents(c == cError, 0, false)
	if c == cReturn {
		verifReach("returned")
		verifAssert("call-value-is-the-returned-value", hvIdentical(got, rfRet))
	}
	if c == cNormal {
		verifAssert("call-without-return-yields-nil", got == nil)
	}
	if c == cError {
		verifAssert("failed-call-yields-nil", got == nil)
	}
}

// hvIdentical: the same value passed through unchanged (same kind and payload; references
// by identity).
func hvIdentical(a, b interface{}) bool {
	switch x := a.(type) {
	case nil:
		return b == nil
	case bool:
		y, ok := b.(bool)
		return ok && x == y
	case float64:
		y, ok := b.(float64)
		return ok && hvSameFloat(x, y)
	case int64:
		y, ok := b.(int64)
		return ok && x == y
	case int:
		y, ok := b.(int)
		return ok && x == y
	case string:
		y, ok := b.(string)
		return ok && x == y
	}
	return verifSameObject(a, b)
}
