package interpreter

// C03 (and C18d): programs over declarations, assignments, reads, blocks, loop headers and
// function declarations/calls, run through the real Interpret and compared with the scope
// model of DESIGN E.6. Every name is its own symbolic code point, so each program skeleton
// covers every collision pattern among its names (the solver decides which names coincide);
// the model uses names only through equality, which is renaming invariance (C18d).

import (
	"fmt"

	"github.com/ah-naf/borno/ast"
	"github.com/ah-naf/borno/token"
	"github.com/ah-naf/borno/utils"
	"golang.org/x/text/unicode/norm"
)

const scMaxScopes = 24
const scMaxBind = 8

type scScope struct {
	names  [scMaxBind]rune
	vals   [scMaxBind]float64
	null   [scMaxBind]bool // the binding holds nil
	isFn   [scMaxBind]int  // index into scFns, or -1
	n      int
	parent int
}

var scDepth int

var (
	scScopes [scMaxScopes]scScope
	scN      int
	scNextV  float64
	// expected output: values printed, in order; then possibly an error
	scOut    [32]float64
	scOutNil [32]bool
	scOutFn  [32]int // >= 0: the value read is function number scOutFn
	scOutN   int
	scErr    bool
	scFns    [4]*ast.FunctionStmt
	scFnEnv  [4]int
	scFnN    int
)

func scNew(parent int) int {
	if scN >= scMaxScopes {
		verifAssume(false)
	}
	s := scN
	scN++
	scScopes[s].n = 0
	scScopes[s].parent = parent
	return s
}

func scLookup(s int, name rune) (int, int) {
	for s >= 0 {
		for i := 0; i < scScopes[s].n; i++ {
			if scScopes[s].names[i] == name {
				return s, i
			}
		}
		s = scScopes[s].parent
	}
	return -1, -1
}

func scHas(s int, name rune) bool {
	for i := 0; i < scScopes[s].n; i++ {
		if scScopes[s].names[i] == name {
			return true
		}
	}
	return false
}

func scBind(s int, name rune, v float64, fn int) {
	scBindV(s, name, v, false, fn)
}

// litValue: (number, is-nil) of a literal or absent initialiser
func litValue(e ast.Expr) (float64, bool) {
	if e == nil {
		return 0, true
	}
	l := e.(*ast.Literal)
	if l.Value == nil {
		return 0, true
	}
	return l.Value.(float64), false
}

func scBindV(s int, name rune, v float64, null bool, fn int) {
	i := scScopes[s].n
	if i >= scMaxBind {
		verifAssume(false)
	}
	scScopes[s].names[i] = name
	scScopes[s].null[i] = null
	scScopes[s].vals[i] = v
	scScopes[s].isFn[i] = fn
	scScopes[s].n = i + 1
}

func nameOf(t token.Token) rune { return []rune(t.Lexeme)[0] }

// scExec: reference execution of the scope sub-language; returns false after an error.
func scExec(st ast.Stmt, s int) bool {
	switch n := st.(type) {
	case *ast.VarStmt:
		// an initialiser that reads a name sees the innermost binding visible at that moment
		// (in a comma-separated list: including the names declared earlier in the same list)
		if id, isRead := n.Initializer.(*ast.Identifier); isRead {
			ts, ti := scLookup(s, nameOf(id.Name))
			if ts < 0 {
				scErr = true
				return false
			}
			v, null, fn := scScopes[ts].vals[ti], scScopes[ts].null[ti], scScopes[ts].isFn[ti]
			if scHas(s, nameOf(n.Name)) {
				scErr = true
				return false
			}
			scBindV(s, nameOf(n.Name), v, null, fn)
			return true
		}
		v, null := litValue(n.Initializer)
		if scHas(s, nameOf(n.Name)) {
			scErr = true
			return false
		}
		scBindV(s, nameOf(n.Name), v, null, -1)
		return true
	case *ast.VarListStmt:
		for k := range n.Declarations {
			if !scExec(&n.Declarations[k], s) {
				return false
			}
		}
		return true
	case *ast.ExpressionStatement:
		switch e := n.Expression.(type) {
		case *ast.AssignmentStmt:
			v, null := litValue(e.Value)
			ts, ti := scLookup(s, nameOf(e.Name))
			if ts < 0 {
				scErr = true
				return false
			}
			scScopes[ts].vals[ti] = v
			scScopes[ts].null[ti] = null
			scScopes[ts].isFn[ti] = -1
			return true
		case *ast.Call:
			id := e.Callee.(*ast.Identifier)
			ts, ti := scLookup(s, nameOf(id.Name))
			if ts < 0 {
				scErr = true
				return false
			}
			f := scScopes[ts].isFn[ti]
			if f < 0 {
				scErr = true // calling a number
				return false
			}
			// activation: fresh child of the closure's scope (which is a child of the declaring scope)
			scDepth++
			if scDepth > 2 {
				verifAssume(false) // recursion deeper than the bound (unbounded recursion is outside the domain)
			}
			act := scNew(scNew(scFnEnv[f]))
			scBind(act, nameOf(scFns[f].Name), 0, f) // the activation binds the function's own name
			for _, b := range scFns[f].Body {
				if !scExec(b, act) {
					return false
				}
			}
			scDepth--
			return true
		}
	case *ast.PrintStatement:
		id := n.Expression.(*ast.Identifier)
		ts, ti := scLookup(s, nameOf(id.Name))
		if ts < 0 {
			scErr = true
			return false
		}
		scOutFn[scOutN] = scScopes[ts].isFn[ti]
		scOut[scOutN] = scScopes[ts].vals[ti]
		scOutNil[scOutN] = scScopes[ts].null[ti]
		scOutN++
		return true
	case *ast.BlockStmt:
		inner := scNew(s)
		for _, b := range n.Block {
			if !scExec(b, inner) {
				return false
			}
		}
		return true
	case *ast.ForStmt:
		inner := scNew(s)
		if n.Initializer != nil {
			if !scExec(n.Initializer, inner) {
				return false
			}
		}
		// the harness's loops run their body exactly once (body ends with break)
		blk := n.Body.(*ast.BlockStmt)
		bs := scNew(inner)
		for _, b := range blk.Block {
			if _, isBreak := b.(*ast.BreakStmt); isBreak {
				return true
			}
			if !scExec(b, bs) {
				return false
			}
		}
		return true
	case *ast.While:
		// the harness's while loops run their body exactly once (body ends with break); there
		// is no header scope, only the body block's
		blk := n.Body.(*ast.BlockStmt)
		bs := scNew(s)
		for _, b := range blk.Block {
			if _, isBreak := b.(*ast.BreakStmt); isBreak {
				return true
			}
			if !scExec(b, bs) {
				return false
			}
		}
		return true
	case *ast.FunctionStmt:
		if scFnN >= 4 {
			verifAssume(false)
		}
		f := scFnN
		scFnN++
		scFns[f] = n
		scFnEnv[f] = s
		// a function declaration (re)binds the name in the current scope
		for i := 0; i < scScopes[s].n; i++ {
			if scScopes[s].names[i] == nameOf(n.Name) {
				scScopes[s].isFn[i] = f
				return true
			}
		}
		scBind(s, nameOf(n.Name), 0, f)
		return true
	}
	verifAssume(false)
	return false
}

var scLine int

func scName() token.Token {
	r := verifNondetRune()
	// identifiers: any letter-like code point would do; names only matter through equality.
	// Keep them apart from the built-in names (multi-character) by construction: one code point.
	scLine++
	return token.Token{Type: token.IDENTIFIER, Lexeme: string([]rune{r}), Line: scLine}
}

func scLit() *ast.Literal {
	scNextV++
	return &ast.Literal{Value: scNextV, Line: scLine}
}

// scLitOrNil: a fresh number, or nil (a binding that holds nil is still a binding)
func scLitOrNil() ast.Expr {
	if verifChoice(3) == 2 {
		return &ast.Literal{Value: nil, Line: scLine}
	}
	return scLit()
}

func genScopeStmt(depth int, inFn bool) ast.Stmt {
	n := 3
	if depth > 0 {
		n = 7
	}
	switch verifChoice(n) {
	case 0:
		nm := scName()
		switch verifChoice(4) {
		case 2:
			return &ast.VarStmt{Name: nm, Line: nm.Line} // declaration without initialiser: nil
		case 3:
			// a comma-separated declaration of two names (the parser's VarListStmt)
			nm2 := scName()
			nm2.Line = nm.Line
			var init2 ast.Expr = scLit()
			if verifChoice(2) == 1 {
				// the second initialiser reads a name (possibly the first name of the list)
				rd := scName()
				rd.Line = nm.Line
				init2 = &ast.Identifier{Name: rd, Line: nm.Line}
			}
			return &ast.VarListStmt{Declarations: []ast.VarStmt{{Name: nm, Initializer: scLit(), Line: nm.Line}, {Name: nm2, Initializer: init2, Line: nm.Line}}}
		}
		return &ast.VarStmt{Name: nm, Initializer: scLit(), Line: nm.Line}
	case 1:
		nm := scName()
		return &ast.ExpressionStatement{Expression: &ast.AssignmentStmt{Name: nm, Value: scLitOrNil(), Line: nm.Line}}
	case 2:
		nm := scName()
		return &ast.PrintStatement{Expression: &ast.Identifier{Name: nm, Line: nm.Line}}
	case 3:
		a := genScopeStmt(depth-1, inFn)
		b := genScopeStmt(depth-1, inFn)
		return &ast.BlockStmt{Block: []ast.Stmt{a, b}}
	case 4:
		nm := scName()
		init := &ast.VarStmt{Name: nm, Initializer: scLit(), Line: nm.Line}
		body := genScopeStmt(depth-1, inFn)
		return &ast.ForStmt{Initializer: init, Condition: &ast.Literal{Value: true}, Body: &ast.BlockStmt{Block: []ast.Stmt{body, &ast.BreakStmt{Line: scLine}}}}
	case 5:
		nm := scName()
		body := genScopeStmt(depth-1, true)
		return &ast.FunctionStmt{Name: nm, Body: []ast.Stmt{body}}
	default:
		nm := scName()
		return &ast.ExpressionStatement{Expression: &ast.Call{Callee: &ast.Identifier{Name: nm, Line: nm.Line}, Paren: token.Token{Type: token.RIGHT_PAREN, Lexeme: ")", Line: nm.Line}}}
	}
}

// VH_scope: nstmt top-level statements of nesting depth <= depth.
func VH_scope(nstmt int, depth int) {
	scN, scOutN, scFnN, scNextV, scLine, scDepth = 0, 0, 0, 0, 0, 0
	scErr = false
	prog := make([]ast.Stmt, 0, 6)
	for i := 0; i < nstmt; i++ {
		prog = append(prog, genScopeStmt(depth, false))
	}
	// reference: globals hold the built-ins under multi-character names, which one-code-point
	// names never equal; the program scope is a child of the globals
	top := scNew(scNew(-1))
	for _, s := range prog {
		if !scExec(s, top) {
			break
		}
	}
	utils.HadError = false
	utils.HadRuntimeError = false
	verifClearEvents()
	in := NewInterpreter()
	in.Interpret(prog, false)
	// compare
	n := verifNumEvents()
	k := 0
	sawErr := false
	for i := 0; i < n; i++ {
		switch verifEventKind(i) {
		case 1:
			verifAssert("nothing-printed-after-diagnostic", !sawErr)
			ok := k < scOutN
			verifAssert("read-expected-by-the-scope-model", ok)
			if ok {
				if scOutFn[k] >= 0 {
					verifAssert("read-yields-the-innermost-visible-binding", verifEventText(i) == norm.NFC.String("<function "+scFns[scOutFn[k]].Name.Lexeme+">")+"\n")
				} else if scOutNil[k] {
					verifAssert("read-yields-the-innermost-visible-binding", verifEventText(i) == "nil\n")
				} else {
					verifAssert("read-yields-the-innermost-visible-binding", verifEventText(i) == fmt.Sprintf("%v\n", scOut[k]))
				}
			}
			k++
		case 2:
			if !sawErr {
				verifAssert("diagnostic-expected-by-the-scope-model", scErr)
				verifAssert("diagnostic-after-the-expected-reads", k == scOutN)
			}
			sawErr = true
		}
	}
	if !sawErr {
		verifAssert("every-expected-read-happened", k == scOutN)
		verifAssert("scope-error-reported", !scErr)
	}
}

// VH_scopeFn (C03/C04): a function with a two-statement body, declared once and called twice
// (or calling itself once): activations are fresh — what one activation binds or rebinds,
// including the function's own name, is not seen by another. Statements are declarations,
// assignments and reads over symbolic names that may collide with the function's name.
func VH_scopeFn(recursive int) {
	scN, scOutN, scFnN, scNextV, scLine, scDepth = 0, 0, 0, 0, 0, 0
	scErr = false
	fname := scName()
	body := []ast.Stmt{genScopeStmt(0, true), genScopeStmt(0, true)}
	call := func() ast.Stmt {
		scLine++
		return &ast.ExpressionStatement{Expression: &ast.Call{Callee: &ast.Identifier{Name: fname, Line: scLine}, Paren: token.Token{Type: token.RIGHT_PAREN, Lexeme: ")", Line: scLine}}}
	}
	if recursive == 1 {
		// S1; f() once (guarded by a global flag so that the recursion ends); S2
		flag := scName()
		prog0 := &ast.VarStmt{Name: flag, Initializer: &ast.Literal{Value: true, Line: flag.Line}, Line: flag.Line}
		_ = prog0
	}
	prog := []ast.Stmt{
		&ast.VarStmt{Name: scName(), Initializer: scLit(), Line: scLine},
		&ast.FunctionStmt{Name: fname, Body: body},
		call(), call(),
		&ast.PrintStatement{Expression: &ast.Identifier{Name: fname, Line: scLine}},
	}
	top := scNew(scNew(-1))
	for _, s := range prog {
		if !scExec(s, top) {
			break
		}
	}
	utils.HadError = false
	utils.HadRuntimeError = false
	verifClearEvents()
	in := NewInterpreter()
	in.Interpret(prog, false)
	scCompare()
}

// VH_scopeLate (C03): the same identifier node evaluated twice with a binding appearing in
// between. An outer binding; then, inside a container scope (0: block, 1: body of a function
// that is called once, 2: body of a for loop), a function whose one-statement body uses a
// symbolic name, a call, an arbitrary statement (declaration / assignment / read of a
// symbolic name: it may introduce a nearer binding of the name the function uses), and a
// second call. "The innermost binding at the moment of use" must hold for the second call as
// for the first, whatever the first evaluation found.
func VH_scopeLate(container int) {
	scN, scOutN, scFnN, scNextV, scLine, scDepth = 0, 0, 0, 0, 0, 0
	scErr = false
	outer := scName()
	fname := scName()
	call := func(nm token.Token) ast.Stmt {
		scLine++
		return &ast.ExpressionStatement{Expression: &ast.Call{Callee: &ast.Identifier{Name: nm, Line: scLine}, Paren: token.Token{Type: token.RIGHT_PAREN, Lexeme: ")", Line: scLine}}}
	}
	fdecl := &ast.FunctionStmt{Name: fname, Body: []ast.Stmt{genScopeStmt(0, true)}}
	c1 := call(fname)
	mid := genScopeStmt(0, false)
	c2 := call(fname)
	last := genScopeStmt(0, false)
	inner := []ast.Stmt{fdecl, c1, mid, c2, last}
	prog := []ast.Stmt{&ast.VarStmt{Name: outer, Initializer: scLit(), Line: outer.Line}}
	switch container {
	case 0:
		prog = append(prog, &ast.BlockStmt{Block: inner})
	case 1:
		g := scName()
		prog = append(prog, &ast.FunctionStmt{Name: g, Body: inner}, call(g))
	default:
		nm := scName()
		init := &ast.VarStmt{Name: nm, Initializer: scLit(), Line: nm.Line}
		prog = append(prog, &ast.ForStmt{Initializer: init, Condition: &ast.Literal{Value: true}, Body: &ast.BlockStmt{Block: append(inner, &ast.BreakStmt{Line: scLine})}})
	}
	top := scNew(scNew(-1))
	for _, s := range prog {
		if !scExec(s, top) {
			break
		}
	}
	utils.HadError = false
	utils.HadRuntimeError = false
	verifClearEvents()
	in := NewInterpreter()
	in.Interpret(prog, false)
	scCompare()
}

// VH_scopeBlockFn (C03): a function declared inside a block (or a loop body) that declares
// nothing else is local to that block like any other declaration: it shadows an outer binding
// of its name only inside the block, does not overwrite it, and is gone afterwards. Outer
// statement, then the container holding { function f { S } ; S' }, then a call and a read of
// symbolic names (which may or may not be f's).
func VH_scopeBlockFn(container int) {
	scN, scOutN, scFnN, scNextV, scLine, scDepth = 0, 0, 0, 0, 0, 0
	scErr = false
	call := func(nm token.Token) ast.Stmt {
		return &ast.ExpressionStatement{Expression: &ast.Call{Callee: &ast.Identifier{Name: nm, Line: nm.Line}, Paren: token.Token{Type: token.RIGHT_PAREN, Lexeme: ")", Line: nm.Line}}}
	}
	var outer ast.Stmt
	if verifChoice(2) == 1 {
		// the outer binding is itself a function
		nm := scName()
		outer = &ast.FunctionStmt{Name: nm, Body: []ast.Stmt{genScopeStmt(0, true)}}
	} else {
		outer = genScopeStmt(0, false)
	}
	fname := scName()
	fdecl := &ast.FunctionStmt{Name: fname, Body: []ast.Stmt{genScopeStmt(0, true)}}
	var second ast.Stmt
	if verifChoice(2) == 1 {
		second = call(scName())
	} else {
		nm := scName()
		second = &ast.PrintStatement{Expression: &ast.Identifier{Name: nm, Line: nm.Line}}
	}
	inner := []ast.Stmt{fdecl, second}
	prog := []ast.Stmt{outer}
	switch container {
	case 0:
		prog = append(prog, &ast.BlockStmt{Block: inner})
	case 2:
		prog = append(prog, &ast.While{Condition: &ast.Literal{Value: true}, Body: &ast.BlockStmt{Block: append(inner, &ast.BreakStmt{Line: scLine})}})
	default:
		nm := scName()
		init := &ast.VarStmt{Name: nm, Initializer: scLit(), Line: nm.Line}
		prog = append(prog, &ast.ForStmt{Initializer: init, Condition: &ast.Literal{Value: true}, Body: &ast.BlockStmt{Block: append(inner, &ast.BreakStmt{Line: scLine})}})
	}
	prog = append(prog, call(scName()))
	nm := scName()
	prog = append(prog, &ast.PrintStatement{Expression: &ast.Identifier{Name: nm, Line: nm.Line}})
	top := scNew(scNew(-1))
	for _, s := range prog {
		if !scExec(s, top) {
			break
		}
	}
	utils.HadError = false
	utils.HadRuntimeError = false
	verifClearEvents()
	in := NewInterpreter()
	in.Interpret(prog, false)
	scCompare()
}

// VH_deadCode (C18f): a declaration added where it can never run — after the থামো that ends a
// loop body, after the ফেরত that ends a function body — changes nothing: the program with it
// and the program without it print the same and fail the same.
func VH_deadCode(where int) {
	scN, scOutN, scFnN, scNextV, scLine, scDepth = 0, 0, 0, 0, 0, 0
	call := func(nm token.Token) ast.Stmt {
		return &ast.ExpressionStatement{Expression: &ast.Call{Callee: &ast.Identifier{Name: nm, Line: nm.Line}, Paren: token.Token{Type: token.RIGHT_PAREN, Lexeme: ")", Line: nm.Line}}}
	}
	outer := genScopeStmt(0, false)
	if verifChoice(2) == 1 {
		nm := scName()
		outer = &ast.FunctionStmt{Name: nm, Body: []ast.Stmt{genScopeStmt(0, true)}}
	}
	fname := scName()
	fdecl := &ast.FunctionStmt{Name: fname, Body: []ast.Stmt{genScopeStmt(0, true)}}
	second := genScopeStmt(0, false)
	deadName := scName()
	dead := &ast.VarStmt{Name: deadName, Initializer: scLit(), Line: deadName.Line}
	loopVar := scName()
	afterCall := call(scName())
	afterRead := scName()
	build := func(withDead bool) []ast.Stmt {
		var container ast.Stmt
		if where == 2 {
			body := []ast.Stmt{fdecl, second, &ast.BreakStmt{Line: scLine}}
			if withDead {
				body = append(body, dead)
			}
			container = &ast.While{Condition: &ast.Literal{Value: true}, Body: &ast.BlockStmt{Block: body}}
		} else if where == 0 {
			body := []ast.Stmt{fdecl, second, &ast.BreakStmt{Line: scLine}}
			if withDead {
				body = append(body, dead)
			}
			init := &ast.VarStmt{Name: loopVar, Initializer: &ast.Literal{Value: 1.0, Line: loopVar.Line}, Line: loopVar.Line}
			container = &ast.ForStmt{Initializer: init, Condition: &ast.Literal{Value: true}, Body: &ast.BlockStmt{Block: body}}
		} else {
			// a block inside a function body that ends in ফেরত; the function is called once
			blk := []ast.Stmt{fdecl, second, &ast.Return{Keyword: token.Token{Type: token.RETURN, Lexeme: "return", Line: scLine}, Value: &ast.Literal{Value: nil, Line: scLine}}}
			if withDead {
				blk = append(blk, dead)
			}
			container = &ast.BlockStmt{Block: []ast.Stmt{&ast.FunctionStmt{Name: loopVar, Body: []ast.Stmt{&ast.BlockStmt{Block: blk}}}, call(loopVar)}}
		}
		return []ast.Stmt{outer, container, afterCall, &ast.PrintStatement{Expression: &ast.Identifier{Name: afterRead, Line: afterRead.Line}}}
	}
	var outs [2]string
	var errs [2]bool
	for run := 0; run < 2; run++ {
		utils.HadError, utils.HadRuntimeError = false, false
		verifClearEvents()
		NewInterpreter().Interpret(build(run == 1), false)
		for i := 0; i < verifNumEvents(); i++ {
			switch verifEventKind(i) {
			case 1:
				outs[run] += verifEventText(i)
			case 2:
				if !errs[run] {
					outs[run] += "<diagnostic at line " + fmt.Sprint(verifEventB(i)) + ">"
				}
				errs[run] = true
			}
		}
	}
	verifAssert("dead-code-same-output", outs[0] == outs[1])
	verifAssert("dead-code-same-failure", errs[0] == errs[1])
}

func scCompare() {
	n := verifNumEvents()
	k := 0
	sawErr := false
	for i := 0; i < n; i++ {
		switch verifEventKind(i) {
		case 1:
			verifAssert("nothing-printed-after-diagnostic", !sawErr)
			ok := k < scOutN
			verifAssert("read-expected-by-the-scope-model", ok)
			if ok {
				if scOutFn[k] >= 0 {
					verifAssert("read-yields-the-innermost-visible-binding", verifEventText(i) == norm.NFC.String("<function "+scFns[scOutFn[k]].Name.Lexeme+">")+"\n")
				} else if scOutNil[k] {
					verifAssert("read-yields-the-innermost-visible-binding", verifEventText(i) == "nil\n")
				} else {
					verifAssert("read-yields-the-innermost-visible-binding", verifEventText(i) == fmt.Sprintf("%v\n", scOut[k]))
				}
			}
			k++
		case 2:
			if !sawErr {
				verifAssert("diagnostic-expected-by-the-scope-model", scErr)
				verifAssert("diagnostic-after-the-expected-reads", k == scOutN)
			}
			sawErr = true
		}
	}
	if !sawErr {
		verifAssert("every-expected-read-happened", k == scOutN)
		verifAssert("scope-error-reported", !scErr)
	}
}
