package interpreter

// Harnesses added in the seventh seeding round (DESIGN I.6).

import (
	"fmt"
	"strings"

	"github.com/ah-naf/borno/ast"
	"github.com/ah-naf/borno/environment"
	"github.com/ah-naf/borno/parser"
	"github.com/ah-naf/borno/token"
	"github.com/ah-naf/borno/utils"
)

// VH_logicalChain (C14): two logical operators over three arbitrary operands, in both nestings
// ((a op b) op c, a op (b op c)) and all four operator pairs: the value is the operand that
// decides, and exactly the operands up to it are evaluated, once each.
func VH_logicalChain() {
	reach := hvReachable()
	vpReset(1, 1, false)
	vpNoRepeat = true
	stOnline = false
	p := [3]ast.Expr{vpNew(1, reach.mask(), 3), vpNew(1, reach.mask(), 3), vpNew(1, reach.mask(), 3)}
	ops := [2]int{verifChoice(2), verifChoice(2)}
	mk := func(isOr int, l, r ast.Expr) ast.Expr {
		op := tok(token.LOGICAL_AND, "&&", 3)
		if isOr == 1 {
			op = tok(token.LOGICAL_OR, "||", 3)
		}
		return &ast.Logical{Left: l, Operator: op, Right: r}
	}
	shape := verifChoice(2)
	var node ast.Expr
	if shape == 0 {
		node = mk(ops[1], mk(ops[0], p[0], p[1]), p[2])
	} else {
		node = mk(ops[0], p[0], mk(ops[1], p[1], p[2]))
	}
	utils.HadRuntimeError = false
	in := NewInterpreter()
	verifClearEvents()
	got, sig := in.eval(node, environment.NewEnvironment(), false)
	verifAssert("logical-returns-a-signal", sig != nil)
	verifAssert("logical-no-diagnostic", hvCountStderr() == 0 && !utils.HadRuntimeError)
	// the reference
	var calls [3]int
	ev := func(i int) interface{} {
		calls[i]++
		return vpVals[i][0]
	}
	decided := func(isOr int, l interface{}) bool { return specTruthy(l) == (isOr == 1) }
	var want interface{}
	if shape == 0 {
		l := ev(0)
		if !decided(ops[0], l) {
			l = ev(1)
		}
		want = l
		if !decided(ops[1], l) {
			want = ev(2)
		}
	} else {
		want = ev(0)
		if !decided(ops[0], want) {
			want = ev(1)
			if !decided(ops[1], want) {
				want = ev(2)
			}
		}
	}
	verifAssert("result-is-the-deciding-operand", hvIdentical(got, want))
	for i := 0; i < 3; i++ {
		if calls[i] == 0 {
			verifAssert("right-not-evaluated-when-short-circuited", vpCalls[i] == 0)
		} else {
			verifAssert("right-evaluated-when-needed", vpCalls[i] == 1)
		}
	}
}

// VH_unaryStack (C02): two prefix operators stacked on one literal operand, through the real
// parser: op1 op2 x means op1 (op2 x), whichever operators they are — so the inner operator's
// demand on its operand holds whatever stands outside it.
func VH_unaryStack() {
	opTok := func(line int) token.Token {
		switch verifChoice(3) {
		case 0:
			return tok(token.MINUS, "-", line)
		case 1:
			return tok(token.NOT, "~", line)
		}
		return tok(token.BANG, "!", line)
	}
	o1, o2 := opTok(1), opTok(1)
	var operand token.Token
	var x interface{}
	switch verifChoice(5) {
	case 0:
		f := verifNondetFloat()
		if o1.Type == token.NOT || o2.Type == token.NOT {
			// the arithmetic of ~ on arbitrary doubles is VH_unary's subject; here: whole and
			// fractional, small and out-of-range representatives
			verifAssume(f == 0 || f == -1 || f == 5 || f == 2.5 || f == 9.3e18)
		}
		operand = token.Token{Type: token.NUMBER, Lexeme: "n", Literal: f, Line: 1}
		x = f
	case 1:
		v := stringLiteralValue(hvText(1))
		operand = token.Token{Type: token.STRING, Lexeme: "s", Literal: v, Line: 1}
		x, _ = NewInterpreter().eval(&ast.Literal{Value: v, Line: 1}, environment.NewEnvironment(), false)
	case 2:
		operand = tok(token.TRUE, "t", 1)
		x = true
	case 3:
		operand = tok(token.FALSE, "f", 1)
		x = false
	default:
		operand = tok(token.NIL, "nil", 1)
		x = nil
	}
	toks := []token.Token{o1, o2, operand, tok(token.SEMICOLON, ";", 1), tok(token.EOF, "", 1)}
	utils.HadError, utils.HadRuntimeError = false, false
	verifClearEvents()
	stmts, _ := parser.NewParser(toks).Parse()
	verifAssert("stacked-prefix-operators-parse", !utils.HadError && len(stmts) == 1)
	if utils.HadError || len(stmts) != 1 {
		return
	}
	res := NewInterpreter().Interpret(stmts, false)
	var got interface{}
	if len(res) > 0 {
		got = res[len(res)-1]
	}
	inner := specUnary(o2.Type, x)
	want := inner
	if inner.cls == clsValue {
		var mid interface{}
		switch inner.kind {
		case rkNum:
			mid = inner.num
		case rkBool:
			mid = inner.b
		default:
			mid = inner.str
		}
		want = specUnary(o1.Type, mid)
	}
	if utils.HadRuntimeError {
		got = nil
	}
	checkResult("unary-", got, want, hvCountStderr())
}

// VH_lateDeclNested (C03): a function declared inside a nested construct of a block (or of a
// function body) — before that block's own first declaration — and handed out through an outer
// variable still resolves a name in the enclosing block once the block declares it.
func VH_lateDeclNested() {
	nest := verifChoice(4)
	container := verifChoice(2)
	inner := "{ " + kwFun + " f() { " + kwReturn + " x; } h = f; }"
	switch nest {
	case 1:
		inner = kwIf + " (1 < 2) " + inner
	case 2:
		inner = kwFor + " (" + kwVar + " i = 0; i < 1; i = i + 1) " + inner
	case 3:
		inner = kwWhile + " (h == 0) " + inner
	}
	body := inner + "\n" + kwPrint + " h();\n" + kwVar + " x = \"b\";\n" + kwPrint + " h();\nx = \"c\";\n" + kwPrint + " h();\n"
	src := kwVar + " x = \"g\";\n" + kwVar + " h = 0;\n"
	if container == 0 {
		src += "{\n" + body + "}\n"
	} else {
		src += kwFun + " outer() {\n" + body + "}\nouter();\n"
	}
	src += kwPrint + " x;\n"
	got, ok := runSource(src)
	verifAssert("closure-program-runs", ok)
	verifAssert("identifier-resolves-to-innermost-enclosing-declaration", sameLines(got, []string{"g", "b", "c", "g"}))
}

// VH_forHeader (C05): every form of a for header's initialiser — none, an assignment, one
// declaration, a declaration list in either order — runs once before the first test.
func VH_forHeader() {
	form := verifChoice(5)
	n := verifChoice(3) + 1
	lim := fmt.Sprint(n)
	var src string
	switch form {
	case 0:
		src = kwVar + " i = 0;\n" + kwFor + " (; i < " + lim + "; i = i + 1)"
	case 1:
		src = kwVar + " i = 9;\n" + kwFor + " (i = 0; i < " + lim + "; i = i + 1)"
	case 2:
		src = kwFor + " (" + kwVar + " i = 0; i < " + lim + "; i = i + 1)"
	case 3:
		src = kwFor + " (" + kwVar + " i = 0, n = " + lim + "; i < n; i = i + 1)"
	default:
		src = kwFor + " (" + kwVar + " n = " + lim + ", i = 0; i < n; i = i + 1)"
	}
	src += " { " + kwPrint + " i; }\n" + kwPrint + " \"end\";\n"
	var want []string
	for i := 0; i < n; i++ {
		want = append(want, fmt.Sprint(i))
	}
	want = append(want, "end")
	got, ok := runSource(src)
	verifAssert("for-program-runs", ok)
	verifAssert("for-initialiser-runs-once-before-the-first-test", sameLines(got, want))
}

// VH_printDeep (C07 / C15): printing an array nested n deep neither fails nor loses a level.
func VH_printDeep(n int) {
	src := kwVar + " a = [1];\n" + kwFor + " (" + kwVar + " i = 0; i < " + fmt.Sprint(n) + "; i = i + 1) { a = [a]; }\n" + kwPrint + " a;\n"
	got, ok := runSource(src)
	verifAssert("deep-print-program-runs", ok)
	want := strings.Repeat("[", n+1) + "1" + strings.Repeat("]", n+1)
	verifAssert("printed-deeply-nested-array-shows-every-level", sameLines(got, []string{want}))
}

// VH_literalFresh (C11 / C12): every evaluation of an array or object literal — in a function
// called twice, in a loop body run twice — yields a value of its own: changing the first leaves
// the second as it was, whether or not the literal's parts are constants.
func VH_literalFresh() {
	kind := verifChoice(4)
	ctx := verifChoice(2)
	mut := verifChoice(2)
	var litSrc, read, change string
	switch kind {
	case 0:
		litSrc, read = "{a: 1, b: \"x\"}", "q.a"
		change = "p.a = 5;"
		if mut == 1 {
			change = "p.c = 7;"
		}
	case 1:
		litSrc, read = "[1, \"x\"]", "q[0]"
		change = "p[0] = 5;"
		if mut == 1 {
			change = "p[1] = 7;"
		}
	case 2:
		litSrc, read = "{a: 1, b: [2]}", "q.a"
		change = "p.a = 5;"
		if mut == 1 {
			change = "p.b[0] = 7;"
		}
	default:
		litSrc, read = "[1, {k: 2}]", "q[0]"
		change = "p[0] = 5;"
		if mut == 1 {
			change = "p[1].k = 7;"
		}
	}
	var src string
	if ctx == 0 {
		src = kwFun + " mk() { " + kwReturn + " " + litSrc + "; }\n" + kwVar + " p = mk();\n" + kwVar + " q = mk();\n"
	} else {
		src = kwVar + " keep = [0, 0];\n" + kwFor + " (" + kwVar + " i = 0; i < 2; i = i + 1) { " + kwVar + " o = " + litSrc + "; keep[i] = o; }\n" +
			kwVar + " p = keep[0];\n" + kwVar + " q = keep[1];\n"
	}
	src += kwPrint + " q;\n" + change + "\n" + kwPrint + " q;\n" + kwPrint + " " + read + ";\n"
	got, ok := runSource(src)
	verifAssert("literal-program-runs", ok)
	verifAssert("literal-program-prints-three-lines", len(got) == 3)
	if len(got) == 3 {
		verifAssert("each-evaluation-of-a-literal-yields-its-own-value", got[0] == got[1] && got[2] == "1")
	}
}

// VH_printEmptyElements (C15): an element that is the empty string still takes its place in the
// printed array: arrays that differ in how many such elements they hold print differently.
func VH_printEmptyElements() {
	pairs := [][2]string{
		{"[\"\", \"x\"]", "[\"x\"]"},
		{"[\"\", \"\"]", "[\"\"]"},
		{"[\"\", \"\", 1]", "[\"\", 1]"},
		{"[\"x\", \"\"]", "[\"x\"]"},
		{"{k: [\"\", \"\"]}", "{k: [\"\"]}"},
		{"[[\"\", 3], 2]", "[[3], 2]"},
	}
	pr := pairs[verifChoice(len(pairs))]
	a, oka := runSource(kwPrint + " " + wrapObj(pr[0]) + ";\n")
	b, okb := runSource(kwPrint + " " + wrapObj(pr[1]) + ";\n")
	verifAssert("print-program-runs", oka && okb && len(a) == 1 && len(b) == 1)
	if len(a) == 1 && len(b) == 1 {
		verifAssert("printed-array-shows-every-element-even-an-empty-text", a[0] != b[0])
	}
}

// wrapObj: an object literal at the start of an expression statement needs parentheses.
func wrapObj(e string) string {
	if strings.HasPrefix(e, "{") {
		return "(" + e + ")"
	}
	return e
}

// VH_printTwice (C15 / C16): what a print shows depends on the printed value alone, not on what
// was printed before it: two arbitrary numbers printed one after the other (as themselves, in
// an array, as a property value).
func VH_printTwice(where int) {
	x, y := verifNondetFloat(), verifNondetFloat()
	wrap := func(v float64) ast.Expr {
		switch where {
		case 1:
			return &ast.ArrayLiteral{Elements: []ast.Expr{lit(v, 1)}, Line: 1}
		case 2:
			return &ast.ObjectLiteral{Properties: map[string]ast.Expr{"k": lit(v, 1)}, Keys: []string{"k"}}
		}
		return lit(v, 1)
	}
	in := NewInterpreter()
	env := environment.NewEnvironmentWithParent(in.globals)
	utils.HadError, utils.HadRuntimeError = false, false
	verifClearEvents()
	in.eval(&ast.PrintStatement{Expression: wrap(x)}, env, false)
	in.eval(&ast.PrintStatement{Expression: wrap(y)}, env, false)
	verifAssert("two-prints-two-lines", hvCountStdout() == 2 && hvCountStderr() == 0)
	if hvCountStdout() != 2 {
		return
	}
	second := verifEventText(1)
	if where == 0 {
		verifAssert("printed-number-is-its-shortest-text", second == specNumText(y)+"\n")
	}
	verifAssert("print-shows-the-value-whatever-was-printed-before", verifTextContainsInOrder(second, specNumText(y)))
}

// VH_cyclicShared (C13 / C15): one object reaching two mutually cyclic objects along different
// routes prints the same text every time it is printed — every map range under its own
// iteration order — and the holder's own properties all show.
func VH_cyclicShared() {
	src := kwVar + " a = {n: 1};\n" + kwVar + " b = {n: 2};\na.b = b;\nb.a = a;\n" + kwVar + " r = {x: a, y: b};\n" + kwPrint + " r;\n" + kwPrint + " r;\n"
	got, ok := runSource(src)
	verifAssert("cyclic-print-program-runs", ok && len(got) == 2)
	if len(got) == 2 {
		verifAssert("same-output-every-time", got[0] == got[1])
		verifAssert("printed-object-shows-every-property", verifTextContainsInOrder(got[0], "x", "n", "1", "y", "n", "2"))
	}
}

// specResultValue: the value a specification result stands for (ok=false unless it is a value).
func specResultValue(r specResult) (interface{}, bool) {
	if r.cls != clsValue {
		return nil, false
	}
	switch r.kind {
	case rkNum:
		return r.num, true
	case rkBool:
		return r.b, true
	}
	return r.str, true
}

// VH_chain3 (C01 / C02): a op1 b op2 c with op1, op2 of the additive level and each operand a
// number or a one-code-point string, through the real parser and evaluator: the value is
// (a op1 b) op2 c — left association decides what is concatenated and what is added — and the
// program with those parentheses written out yields the same value.
func VH_chain3() {
	operand := func(i int) (token.Token, interface{}) {
		if verifChoice(2) == 0 {
			f := verifNondetFloat()
			return token.Token{Type: token.NUMBER, Lexeme: "n", Literal: f, Line: 1}, f
		}
		v := stringLiteralValue(hvText(1))
		x, _ := NewInterpreter().eval(&ast.Literal{Value: v, Line: 1}, environment.NewEnvironment(), false)
		return token.Token{Type: token.STRING, Lexeme: "s", Literal: v, Line: 1}, x
	}
	opTok := func() token.Token {
		if verifChoice(2) == 0 {
			return tok(token.PLUS, "+", 1)
		}
		return tok(token.MINUS, "-", 1)
	}
	ta, a := operand(0)
	tb, b := operand(1)
	tc, c := operand(2)
	o1, o2 := opTok(), opTok()
	if o2.Type == token.MINUS && (hvIsStr(a) || hvIsStr(b)) {
		// subtracting from a concatenation that embeds a symbolic number's text: the operand
		// check would have to read that text digit by digit — outside what is encoded
		verifReach("chain-open")
		return
	}
	run := func(toks []token.Token) (interface{}, bool, int) {
		utils.HadError, utils.HadRuntimeError = false, false
		verifClearEvents()
		stmts, _ := parser.NewParser(toks).Parse()
		if utils.HadError || len(stmts) != 1 {
			return nil, false, 0
		}
		res := NewInterpreter().Interpret(stmts, false)
		var got interface{}
		if len(res) > 0 && !utils.HadRuntimeError {
			got = res[len(res)-1]
		}
		return got, true, hvCountStderr()
	}
	semi, eof := tok(token.SEMICOLON, ";", 1), tok(token.EOF, "", 1)
	plain, ok1, nerr1 := run([]token.Token{ta, o1, tb, o2, tc, semi, eof})
	verifAssert("chain-parses", ok1)
	if !ok1 {
		return
	}
	failed1 := utils.HadRuntimeError
	want := specBinary(a, o1.Type, b)
	if mid, isVal := specResultValue(want); isVal {
		want = specBinary(mid, o2.Type, c)
	}
	checkResult("chain-", plain, want, nerr1)
	paren, ok2, _ := run([]token.Token{tok(token.LEFT_PAREN, "(", 1), ta, o1, tb, tok(token.RIGHT_PAREN, ")", 1), o2, tc, semi, eof})
	verifAssert("chain-parses", ok2)
	if ok2 {
		verifAssert("parentheses-of-the-ladder-do-not-change-the-value", failed1 == utils.HadRuntimeError && hvIdentical(plain, paren))
	}
}

// spellingNames: identifiers whose code points NFC would rewrite (U+09DC, U+09DF, the two-part
// vowel sign written as its parts) next to plain ones.
var spellingNames = []string{"x", "\u09ac\u09dc", "\u09df", "\u0995\u09c7\u09be", "e\u0301", "\u09af\u09bc"}

// VH_nameSpelling (C03): declaration, redeclaration, shadowing and assignment behave the same
// whatever code points a name is made of: redeclaring in the same scope (a parameter, a
// variable) is an error, an inner block may shadow, assignment reaches the visible binding.
func VH_nameSpelling() {
	n := spellingNames[verifChoice(len(spellingNames))]
	switch verifChoice(4) {
	case 3:
		// a parameter may bear the function's own name: inside, the name is the parameter
		src := kwFun + " " + n + "(" + n + ") { " + kwReturn + " " + n + " * 2; }\n" + kwPrint + " " + n + "(4);\n" + kwFun + " g(g, h) { " + kwReturn + " g + h; }\n" + kwPrint + " g(1, 2);\n"
		got, ok := runSource(src)
		verifAssert("scope-program-runs", ok)
		verifAssert("read-yields-the-innermost-visible-binding", sameLines(got, []string{"8", "3"}))
	case 0:
		src := kwFun + " f(" + n + ") { " + kwVar + " " + n + " = 0; " + kwReturn + " " + n + "; }\n" + kwPrint + " \"s\";\n" + kwPrint + " f(41);\n" + kwPrint + " \"t\";\n"
		got, ok := runSource(src)
		verifAssert("scope-error-reported", !ok)
		verifAssert("read-yields-the-innermost-visible-binding", sameLines(got, []string{"s"}))
	case 1:
		src := kwVar + " " + n + " = 1;\n" + kwPrint + " " + n + ";\n" + kwVar + " " + n + " = 2;\n" + kwPrint + " " + n + ";\n"
		got, ok := runSource(src)
		verifAssert("scope-error-reported", !ok)
		verifAssert("read-yields-the-innermost-visible-binding", sameLines(got, []string{"1"}))
	default:
		src := kwVar + " " + n + " = 1;\n{ " + kwVar + " " + n + " = 2; " + kwPrint + " " + n + "; }\n" + kwPrint + " " + n + ";\n" + n + " = 3;\n" + kwPrint + " " + n + ";\n"
		got, ok := runSource(src)
		verifAssert("scope-program-runs", ok)
		verifAssert("read-yields-the-innermost-visible-binding", sameLines(got, []string{"2", "1", "3"}))
	}
}

// VH_arrayValues (C11): a[i] = v stores a value of every kind — nil, the nil a function without
// return yields, booleans, text, arrays, objects, functions — visibly through an alias, and an
// out-of-range write is an error whatever the value is.
func VH_arrayValues() {
	vals := [][2]string{
		{"nil", "b[1] == nil"}, {"g()", "b[1] == nil"}, {"\u09b8\u09a4\u09cd\u09af", "b[1] == \u09b8\u09a4\u09cd\u09af"}, {"\"s\"", "b[1] == \"s\""},
		{"[7]", "b[1][0] == 7"}, {"{k: 7}", "b[1].k == 7"}, {"f", "b[1]() == 1"}, {"u", "b[1] == nil"},
	}
	v := vals[verifChoice(len(vals))]
	bad := []string{"7", "3", "-1", "1.5", "\"x\""}[verifChoice(5)]
	src := kwVar + " a = [1, 2, 3];\n" + kwVar + " b = a;\n" + kwVar + " u;\n" + kwFun + " g() { }\n" + kwFun + " f() { " + kwReturn + " 1; }\n" +
		"a[1] = " + v[0] + ";\n" + kwPrint + " b[1] == 2;\n" + kwPrint + " " + v[1] + ";\n" +
		"a[" + bad + "] = " + v[0] + ";\n" + kwPrint + " \"unreached\";\n"
	got, ok := runSource(src)
	verifAssert("invalid-array-operation-is-an-error", !ok)
	verifAssert("indexed-read-yields-the-element", sameLines(got, []string{"false", "true"}))
}

// VH_valuesShared (C12): the values a listing hands out are the property values themselves: an
// object or array reached through the listing is the one the property holds (changes show both
// ways, == holds), at each position of the listing.
func VH_valuesShared() {
	which := verifChoice(2)
	var src string
	if which == 0 {
		src = kwVar + " o = {a: {n: 5}, b: [1, 2]};\n" + kwVar + " vs = " + nameValues + "(o);\n" +
			"vs[0].n = 0;\nvs[1][0] = 9;\n" + kwPrint + " o.a.n;\n" + kwPrint + " o.b[0];\n" +
			kwPrint + " vs[0] == o.a;\n" + kwPrint + " vs[1] == o.b;\no.a.n = 7;\n" + kwPrint + " vs[0].n;\n"
	} else {
		src = kwVar + " inner = {n: 5};\n" + kwVar + " o = {z: inner, y: 3};\n" + kwVar + " vs = " + nameValues + "(o);\n" +
			"inner.n = 0;\n" + kwPrint + " vs[1].n;\n" + kwPrint + " vs[0];\n" +
			kwPrint + " vs[1] == inner;\n" + kwPrint + " " + nameValues + "(o)[1] == vs[1];\nvs[1].m = 7;\n" + kwPrint + " o.z.m;\n"
	}
	got, ok := runSource(src)
	verifAssert("values-program-runs", ok)
	want := []string{"0", "9", "true", "true", "7"}
	if which == 1 {
		want = []string{"0", "3", "true", "true", "7"}
	}
	verifAssert("listed-value-is-the-property-value-itself", sameLines(got, want))
}

// VH_minmaxNested (C17): min/max take numbers or ONE array of numbers: an array element that is
// itself an array is not a number, however the arrays nest ([[x, y]], [[x]], [[[x]]], [[x], y]).
func VH_minmaxNested(which int) {
	in := NewInterpreter()
	env := environment.NewEnvironmentWithParent(in.globals)
	x, y := verifNondetFloat(), verifNondetFloat()
	var arg interface{}
	switch verifChoice(4) {
	case 0:
		arg = []interface{}{[]interface{}{x, y}}
	case 1:
		arg = []interface{}{[]interface{}{x}}
	case 2:
		arg = []interface{}{[]interface{}{[]interface{}{x}}}
	default:
		arg = []interface{}{[]interface{}{x}, y}
	}
	utils.HadError, utils.HadRuntimeError = false, false
	verifClearEvents()
	got, _ := in.eval(&ast.Call{Callee: ident(mathNames[which], 5), Paren: tok(token.RIGHT_PAREN, ")", 5), Arguments: []ast.Expr{lit(arg, 5)}}, env, false)
	verifAssert("minmax-of-non-number-is-an-error", utils.HadRuntimeError && got == nil && hvCountStderr() >= 1)
}
