package interpreter

// C04: closures, recursion and arity, through the real lexer, parser and Interpret on
// concrete programs whose call interleaving is chosen by forking; and the Call node's arity /
// callable checks with callees of every kind.

import (
	"fmt"
	"sort"
	"strings"

	"github.com/ah-naf/borno/ast"
	"github.com/ah-naf/borno/environment"
	"github.com/ah-naf/borno/lexer"
	"github.com/ah-naf/borno/parser"
	"github.com/ah-naf/borno/token"
	"github.com/ah-naf/borno/utils"
)

// keywords as code points (DESIGN A.2)
const (
	kwFun    = "\u09ab\u09be\u0982\u09b6\u09a8"
	kwVar    = "\u09a7\u09b0\u09bf"
	kwIf     = "\u09af\u09a6\u09bf"
	kwPrint  = "\u09a6\u09c7\u0996\u09be\u0993"
	kwReturn = "\u09ab\u09c7\u09b0\u09a4"
	kwWhile  = "\u09af\u09a4\u0995\u09cd\u09b7\u09a3"
	kwFor    = "\u09ab\u09b0"
	kwElse   = "\u09a8\u09be\u09b9\u09df"
)

// runSource: the real pipeline on a concrete program; returns what it printed, line by line.
func runSource(src string) ([]string, bool) {
	utils.HadError, utils.HadRuntimeError = false, false
	verifClearEvents()
	toks := lexer.NewScanner([]rune(src)).ScanTokens()
	stmts, _ := parser.NewParser(toks).Parse()
	if utils.HadError {
		return nil, false
	}
	NewInterpreter().Interpret(stmts, false)
	var out []string
	for i := 0; i < verifNumEvents(); i++ {
		if verifEventKind(i) == 1 {
			out = append(out, strings.TrimSuffix(verifEventText(i), "\n"))
		}
	}
	return out, !utils.HadRuntimeError
}

func VH_closure(which int) {
	switch which {
	case 0: // counter factory: separate state per factory call, state alive after the factory returned
		src := kwFun + " make() { " + kwVar + " c = 0; " + kwFun + " inc() { c = c + 1; " + kwReturn + " c; } " + kwReturn + " inc; }\n" +
			kwVar + " a = make();\n" + kwVar + " b = make();\n"
		cnt := [2]int{0, 0}
		var want []string
		for i := 0; i < 3; i++ {
			w := verifChoice(2)
			cnt[w]++
			want = append(want, fmt.Sprint(cnt[w]))
			if w == 0 {
				src += kwPrint + " a();\n"
			} else {
				src += kwPrint + " b();\n"
			}
		}
		got, ok := runSource(src)
		verifAssert("closure-program-runs", ok)
		verifAssert("closure-counters-are-separate-and-persistent", sameLines(got, want))
	case 1: // two closures over one variable see each other's updates; the outer variable is shared by reference
		src := kwVar + " x = 1;\n" + kwFun + " get() { " + kwReturn + " x; }\n" + kwFun + " set(v) { x = v; }\n"
		cur := 1
		var want []string
		for i := 0; i < 3; i++ {
			switch verifChoice(3) {
			case 0:
				src += kwPrint + " get();\n"
				want = append(want, fmt.Sprint(cur))
			case 1:
				cur = 10 + i
				src += fmt.Sprintf("set(%d);\n", cur)
			default:
				cur = 20 + i
				src += fmt.Sprintf("x = %d;\n", cur)
			}
		}
		src += kwPrint + " get();\n"
		want = append(want, fmt.Sprint(cur))
		got, ok := runSource(src)
		verifAssert("closure-program-runs", ok)
		verifAssert("closure-observes-later-updates", sameLines(got, want))
	default: // recursion: each activation keeps its own parameter across the inner call
		d := 1 + verifChoice(3)
		src := kwFun + " f(n) { " + kwIf + " (n == 0) { " + kwReturn + " 0; } " + kwVar + " r = f(n - 1); " + kwReturn + " n * 10 + r; }\n" +
			fmt.Sprintf("%s f(%d);\n", kwPrint, d)
		// f(n) = n*10 + f(n-1)
		wantN := 0
		for n := 1; n <= d; n++ {
			wantN = n*10 + wantN
		}
		got, ok := runSource(src)
		verifAssert("recursion-program-runs", ok)
		verifAssert("recursion-activations-do-not-interfere", sameLines(got, []string{fmt.Sprint(wantN)}))
	}
}

// VH_reentrant (C04): a call site that is re-entered while its own arguments are being
// evaluated. pack(p1..pk) returns its parameters as an array; nest(n) calls
// pack(..., nest(n-1), ...) with the recursive call in argument position pos and n (or n+100)
// in the others, and is itself called twice from the top level with depths d1, d2 — so the same
// call node is evaluated re-entrantly and repeatedly. Every activation must see exactly its own
// arguments, by position.
func VH_reentrant() {
	k := 2 + verifChoice(2)
	pos := verifChoice(k)
	d1 := 1 + verifChoice(3)
	d2 := 1 + verifChoice(3)
	params, elems, args := "", "", ""
	for j := 0; j < k; j++ {
		if j > 0 {
			params += ", "
			elems += ", "
			args += ", "
		}
		params += fmt.Sprintf("p%d", j)
		elems += fmt.Sprintf("p%d", j)
		if j == pos {
			args += "nest(n - 1)"
		} else {
			args += fmt.Sprintf("n + %d", 100*j)
		}
	}
	src := kwFun + " pack(" + params + ") { " + kwReturn + " [" + elems + "]; }\n" +
		kwFun + " nest(n) { " + kwIf + " (n == 0) { " + kwReturn + " 0; } " + kwReturn + " pack(" + args + "); }\n" +
		fmt.Sprintf("%s nest(%d);\n%s nest(%d);\n", kwPrint, d1, kwPrint, d2)
	var want func(n int) string
	want = func(n int) string {
		if n == 0 {
			return "0"
		}
		out := "["
		for j := 0; j < k; j++ {
			if j > 0 {
				out += " "
			}
			if j == pos {
				out += want(n - 1)
			} else {
				out += fmt.Sprint(n + 100*j)
			}
		}
		return out + "]"
	}
	got, ok := runSource(src)
	verifAssert("recursion-program-runs", ok)
	verifAssert("recursion-reentrant-call-site-keeps-its-arguments", sameLines(got, []string{want(d1), want(d2)}))
}

func sameLines(a, b []string) bool {
	if len(a) != len(b) {
		return false
	}
	for i := range a {
		if a[i] != b[i] {
			return false
		}
	}
	return true
}

// VH_arity: the Call node with a user function of p parameters and n arguments, and with a
// callee of arbitrary kind.
func VH_arity() {
	reach := hvReachable()
	vpReset(1, 0, false)
	stOnline = false
	p := verifChoice(3)
	n := verifChoice(4)
	params := []token.Token{}
	for i := 0; i < p; i++ {
		params = append(params, tok(token.IDENTIFIER, fmt.Sprintf("p%d", i), 1))
	}
	bodyProbe := vpNew(0, 0, 2) // probe 0: evaluated iff the body runs
	decl := &ast.FunctionStmt{Name: tok(token.IDENTIFIER, "f", 1), Params: params,
		Body: []ast.Stmt{&ast.ExpressionStatement{Expression: bodyProbe}, &ast.Return{Keyword: tok(token.RETURN, "return", 3), Value: ident("p0", 3)}}}
	if p == 0 {
		decl.Body = decl.Body[:1]
	}
	in := NewInterpreter()
	env := environment.NewEnvironmentWithParent(in.globals)
	fn := NewFunction(decl, environment.NewEnvironmentWithParent(env))
	useOther := verifChoice(2) == 1
	var callee interface{} = fn
	if useOther {
		callee = hvValue(reach.mask(), 1)
	}
	args := []ast.Expr{}
	for i := 0; i < n; i++ {
		args = append(args, lit(float64(100+i), 4))
	}
	utils.HadRuntimeError = false
	verifClearEvents()
	got, sig := in.eval(&ast.Call{Callee: lit(callee, 4), Paren: tok(token.RIGHT_PAREN, ")", 4), Arguments: args}, env, false)
	verifAssert("arity-call-returns-a-signal", sig != nil)
	if useOther {
		if _, isCallable := callee.(Callable); !isCallable {
			verifAssert("arity-calling-a-non-function-is-an-error", utils.HadRuntimeError && got == nil)
			verifAssert("arity-non-function-diagnostic-names-the-call-line", verifFirstStderrLine() == 4)
		}
		return
	}
	if n != p {
		verifAssert("arity-wrong-argument-count-is-an-error", utils.HadRuntimeError && got == nil)
		verifAssert("arity-callee-not-entered-on-mismatch", vpCalls[0] == 0)
		return
	}
	verifAssert("arity-matching-call-succeeds", !utils.HadRuntimeError && vpCalls[0] == 1)
	if p > 0 {
		f, isF := got.(float64)
		verifAssert("arity-first-parameter-bound-to-first-argument", isF && f == 100)
	}
}

// VH_diagText (C13): the same failing program evaluated twice writes the same first diagnostic.
func VH_diagText(nkeys int) {
	ks := []int{}
	for i := 0; i < nkeys; i++ {
		ks = append(ks, i)
	}
	vpReset(1, 0, false)
	stOnline = false
	// the missing name is either unlike every key, or as close to one key as to another
	// (item9 vs item1, item2, …): whatever a diagnostic derives from "the nearest key" is a tie
	missing := "zz"
	if nkeys >= 2 {
		if verifChoice(2) == 1 {
			missing = "item9"
		}
	}
	var texts [2]string
	for run := 0; run < 2; run++ {
		in := NewInterpreter()
		vpN = 0
		for i := 0; i < nkeys; i++ {
			vpNew(0, 0, 1)
			vpCalls[i] = 0
			in.globals.Define(fmt.Sprintf("p%d", i), verifProbe{i}) // Interpret runs in a child of the globals
			vpVals[i][0] = float64(i + 1)
		}
		toks := objectLiteralTokens(ks, 1)
		// property names that differ in one place only (item1, item2, …)
		for ti := range toks {
			for kk := 0; kk < 4; kk++ {
				if toks[ti].Type == token.IDENTIFIER && toks[ti].Lexeme == obKeys[kk] {
					toks[ti].Lexeme = fmt.Sprintf("item%d", kk+1)
				}
			}
		}
		// ( { … } ) . zz ;  — replace the final ") ; EOF" by ") . zz ; EOF"
		toks = toks[:len(toks)-2]
		// the missing name is as close to one listed key as to another (ka / Ka differ from it
		// in one place each): whatever a diagnostic derives from "the nearest key" is a tie
		toks = append(toks, tk(token.DOT, ".", nil, 1), tk(token.IDENTIFIER, missing, nil, 1), tk(token.SEMICOLON, ";", nil, 1), tk(token.EOF, "", nil, 1))
		utils.HadError, utils.HadRuntimeError = false, false
		stmts, err := parser.NewParser(toks).Parse()
		if err != nil {
			verifAssert("diagnostic-program-parses", false)
			return
		}
		verifClearEvents()
		in.Interpret(stmts, false)
		verifAssert("missing-property-is-diagnosed", utils.HadRuntimeError && hvCountStderr() >= 1)
		for i := 0; i < nkeys; i++ {
			verifAssert("diagnostic-program-evaluates-its-initialisers", vpCalls[i] == 1)
		}
		for i := 0; i < verifNumEvents(); i++ {
			if verifEventKind(i) == 2 {
				texts[run] = verifEventText(i)
				break
			}
		}
	}
	verifAssert("diagnostic-text-repeats", texts[0] == texts[1])
}

// VH_diagQuoted (C06): diagnostics that quote user text. The quoted text holds a '%' (legal in a
// string, and what the modulo operator looks like in a quoted expression) next to arbitrary
// code points; the first diagnostic must still name the line of the failing operation and the
// program must stop there.
//
//	0: - "<r1>50%<r2>"            (operand-type error quoting the string)
//	1: t[(i % 2)].missing         (missing property, the message quotes the object expression)
//	2: key-remove(o, "<r1>%d<r2>")  (built-in failure quoting the key)
func VH_diagQuoted(which int) {
	const L = 7
	r1, r2 := verifNondetRune(), verifNondetRune()
	verifAssume(r1 != 0 && r2 != 0 && r1 != 10 && r2 != 10)
	in := NewInterpreter()
	env := in.globals // Interpret runs the program in a child of the globals
	var node ast.Expr
	switch which {
	case 0:
		node = &ast.Unary{Operator: tok(token.MINUS, "-", L), Right: &ast.Literal{Value: []rune{r1, '5', '0', '%', r2}, Line: L}, Line: L}
	case 1:
		env.Define("t", []interface{}{map[string]interface{}{"a": 1.0}, map[string]interface{}{"a": 2.0}})
		env.Define("i", 3.0)
		idx := &ast.Binary{Left: &ast.Identifier{Name: tok(token.IDENTIFIER, "i", L), Line: L}, Operator: tok(token.MODULO, "%", L), Right: &ast.Literal{Value: 2.0, Line: L}, Line: L}
		node = &ast.PropertyAccess{Object: &ast.ArrayAccess{Array: &ast.Identifier{Name: tok(token.IDENTIFIER, "t", L), Line: L}, Index: idx, Line: L}, Property: tok(token.IDENTIFIER, "missing", L), Line: L}
	case 3:
		// a long object expression in multi-byte characters: t<name>[0].<name>.missing
		long := strings.Repeat("\u09b6\u09bf\u0995\u09cd\u09b7\u09be", 1+verifChoice(6))
		env.Define(long, []interface{}{map[string]interface{}{long: map[string]interface{}{"a": 1.0}}})
		node = &ast.PropertyAccess{Object: &ast.PropertyAccess{Object: &ast.ArrayAccess{Array: &ast.Identifier{Name: tok(token.IDENTIFIER, long, L), Line: L}, Index: &ast.Literal{Value: 0.0, Line: L}, Line: L}, Property: tok(token.IDENTIFIER, long, L), Line: L}, Property: tok(token.IDENTIFIER, "missing", L), Line: L}
	default:
		env.Define("o", map[string]interface{}{"a": 1.0})
		callee := &ast.Literal{Value: NativeDeleteFn{}, Line: L}
		node = &ast.Call{Callee: callee, Paren: tok(token.RIGHT_PAREN, ")", L), Arguments: []ast.Expr{&ast.Identifier{Name: tok(token.IDENTIFIER, "o", L), Line: L}, &ast.Literal{Value: []rune{r1, '%', 'd', r2}, Line: L}}}
	}
	prog := []ast.Stmt{
		&ast.PrintStatement{Expression: node},
		&ast.PrintStatement{Expression: &ast.Literal{Value: 1.0, Line: L + 1}},
	}
	utils.HadError, utils.HadRuntimeError = false, false
	verifClearEvents()
	in.Interpret(prog, false)
	nerr := 0
	for i := 0; i < verifNumEvents(); i++ {
		switch verifEventKind(i) {
		case 1:
			verifAssert("nothing-printed-after-first-diagnostic", false)
		case 2:
			if nerr == 0 {
				verifAssert("first-diagnostic-names-the-failing-line", verifEventB(i) == L)
				if which == 1 {
					// guards the harness itself: the diagnostic is the one that quotes the expression
					verifAssert("first-diagnostic-describes-the-operation", verifTextContainsInOrder(verifEventText(i), "(i % 2)"))
				}
			}
			nerr++
		}
	}
	verifAssert("missing-diagnostic", nerr >= 1)
	verifAssert("diagnostic-sets-flag", utils.HadRuntimeError)
}

// VH_dupKeys (C13): an object literal in which a property name is written more than once (which
// initialisers run for a repeated name is not this property's business; that the same program
// does the same thing every time is). The literal goes through the real parser and Interpret
// twice, every map range taking its own order; the sequence of initialiser evaluations, what is
// printed and the first diagnostic must repeat.
func VH_dupKeys(nkeys int) {
	vpReset(1, 0, false)
	stOnline = false
	// nkeys names in source order, then one of them again
	ks := []int{}
	for i := 0; i < nkeys; i++ {
		ks = append(ks, i)
	}
	ks = append(ks, verifChoice(nkeys))
	withMissing := verifChoice(2) == 1
	var seq [2]string
	var outs [2]string
	for run := 0; run < 2; run++ {
		in := NewInterpreter()
		vpN = 0
		for i := 0; i < len(ks); i++ {
			vpNew(0, 0, 1)
			vpCalls[i] = 0
			in.globals.Define(fmt.Sprintf("p%d", i), verifProbe{i})
			vpVals[i][0] = float64(i + 1)
		}
		toks := objectLiteralTokens(ks, 1)
		toks = toks[:len(toks)-2]
		if withMissing {
			// ( { … } ) . zz ;  — the diagnostic quotes the literal
			toks = append(toks, tk(token.DOT, ".", nil, 1), tk(token.IDENTIFIER, "zz", nil, 1))
		}
		toks = append(toks, tk(token.SEMICOLON, ";", nil, 1), tk(token.EOF, "", nil, 1))
		toks = append([]token.Token{tk(token.PRINT, "print", nil, 1)}, toks...)
		utils.HadError, utils.HadRuntimeError = false, false
		stmts, err := parser.NewParser(toks).Parse()
		if err != nil {
			verifAssert("duplicate-key-program-parses", false)
			return
		}
		verifClearEvents()
		in.Interpret(stmts, false)
		verifAssert("duplicate-key-program-runs", utils.HadRuntimeError == withMissing)
		for i := 0; i < verifNumEvents(); i++ {
			switch verifEventKind(i) {
			case 3:
				seq[run] += fmt.Sprint(verifEventA(i)) + ","
			case 1, 2:
				if outs[run] == "" {
					outs[run] = verifEventText(i)
				}
			}
		}
	}
	verifAssert("initialisers-run-in-the-same-order-every-time", seq[0] == seq[1])
	verifAssert("same-output-every-time", outs[0] == outs[1])
}

// builtinNames: the names bound in the global scope, in a fixed order.
func builtinNames() []string {
	g := NewInterpreter().globals
	names := make([]string, 0, len(g.Values))
	for n := range g.Values {
		names = append(names, n)
	}
	sort.Strings(names)
	return names
}

// VH_paramShadow (C03): a parameter may bear the name of a built-in (the parser bars those names
// only for declared variables and functions); inside the function — and inside functions nested
// in it — the name denotes the argument, for calls as for reads.
func VH_paramShadow(nested int) {
	names := builtinNames()
	b := names[verifChoice(len(names))]
	src := kwFun + " twice(x) { " + kwReturn + " x * 2; }\n"
	if nested == 0 {
		src += kwFun + " apply(" + b + ", v) { " + kwPrint + " " + b + "; " + kwReturn + " " + b + "(v); }\n"
	} else {
		src += kwFun + " apply(" + b + ", v) { " + kwFun + " inner() { " + kwPrint + " " + b + "; " + kwReturn + " " + b + "(v); } " + kwReturn + " inner(); }\n"
	}
	src += kwPrint + " apply(twice, 2.6);\n"
	got, ok := runSource(src)
	verifAssert("parameter-shadow-program-runs", ok)
	verifAssert("read-yields-the-innermost-visible-binding", sameLines(got, []string{"<function twice>", "5.2"}))
}

// VH_loopClosure (C04): functions produced by different iterations of a loop own separate
// variables, wherever in the loop body the declaration sits — directly in the body, or in a
// bare block, an if-block or an inner loop inside it. Each iteration declares a body-level
// variable v and a function that reads and bumps it; the functions are kept in an array and
// called after the loop has ended (so v must outlive its iteration, once per iteration).
func VH_loopClosure() {
	loop := verifChoice(2) // 0: while, 1: for
	nest := verifChoice(4) // 0: directly in the body, 1: bare block, 2: if-block, 3: inner for-loop body
	decl := kwFun + " bump() { v = v + 1; " + kwReturn + " v; } fs[i] = bump;"
	switch nest {
	case 1:
		decl = "{ " + decl + " }"
	case 2:
		decl = kwIf + " (i >= 0) { " + decl + " }"
	case 3:
		decl = kwFor + " (" + kwVar + " k = 0; k < 1; k = k + 1) { " + decl + " }"
	}
	body := "{ " + kwVar + " v = i * 10; " + decl
	src := kwVar + " fs = [nil, nil, nil];\n"
	if loop == 0 {
		src += kwVar + " i = 0;\n" + kwWhile + " (i < 3) " + body + " i = i + 1; }\n"
	} else {
		src += kwFor + " (" + kwVar + " i = 0; i < 3; i = i + 1) " + body + " }\n"
	}
	// call order chosen freely: two calls of one closure and one of another
	a := verifChoice(3)
	b := verifChoice(3)
	src += fmt.Sprintf("%s fs[%d]();\n%s fs[%d]();\n%s fs[%d]();\n", kwPrint, a, kwPrint, b, kwPrint, a)
	cnt := [3]int{0, 10, 20}
	var want []string
	for _, k := range []int{a, b, a} {
		cnt[k]++
		want = append(want, fmt.Sprint(cnt[k]))
	}
	got, ok := runSource(src)
	verifAssert("closure-program-runs", ok)
	verifAssert("closure-counters-are-separate-and-persistent", sameLines(got, want))
}

// VH_factoryPlacement (C04/C03): a counter factory whose inner function is declared directly in
// the body, in a bare block, in the then-branch, in the else-branch, at the end of an else-if
// chain, or in a loop body. Three factory calls, then calls of the three counters in an
// arbitrary order: each counter owns its variable (and its tag parameter), whatever later
// calls of the factory did.
func VH_factoryPlacement() {
	place := verifChoice(6)
	inner := kwFun + " inc() { c = c + 1; " + kwReturn + " tag * 100 + c; } " + kwReturn + " inc;"
	var body string
	switch place {
	case 0:
		body = inner
	case 1:
		body = "{ " + inner + " }"
	case 2:
		body = kwIf + " (tag > 0) { " + inner + " } " + kwElse + " { " + kwReturn + " nil; }"
	case 3:
		body = kwIf + " (tag < 0) { " + kwReturn + " nil; } " + kwElse + " { " + inner + " }"
	case 4:
		body = kwIf + " (tag < 0) { " + kwReturn + " nil; } " + kwElse + " " + kwIf + " (tag == 0) { " + kwReturn + " nil; } " + kwElse + " { " + inner + " }"
	default:
		body = kwWhile + " (tag > 0) { " + inner + " }"
	}
	src := kwFun + " make(tag) { " + kwVar + " c = 0; " + body + " }\n" +
		kwVar + " f1 = make(1);\n" + kwVar + " f2 = make(2);\n" + kwVar + " f3 = make(3);\n"
	cnt := [3]int{0, 0, 0}
	var want []string
	for i := 0; i < 3; i++ {
		k := verifChoice(3)
		cnt[k]++
		want = append(want, fmt.Sprint((k+1)*100+cnt[k]))
		src += fmt.Sprintf("%s f%d();\n", kwPrint, k+1)
	}
	got, ok := runSource(src)
	verifAssert("closure-program-runs", ok)
	verifAssert("closure-counters-are-separate-and-persistent", sameLines(got, want))
}

// VH_manyCalls (C04): n completed calls of a function that falls off its end (no ফেরত), one
// after the other, then an ordinary call: activations that have ended leave nothing behind
// that a later call could trip over (no call budget is used up by calls that returned).
func VH_manyCalls(n int) {
	src := kwVar + " t = 0;\n" +
		kwFun + " tick() { t = t + 1; }\n" +
		kwFun + " twice(x) { " + kwReturn + " x * 2; }\n" +
		fmt.Sprintf("%s (%s i = 0; i < %d; i = i + 1) { tick(); }\n", kwFor, kwVar, n) +
		kwPrint + " twice(21);\n" + kwPrint + " t;\n" + kwPrint + " tick();\n"
	got, ok := runSource(src)
	verifAssert("call-program-runs", ok)
	verifAssert("call-after-many-completed-calls", sameLines(got, []string{"42", fmt.Sprint(n), "nil"}))
}

// VH_constInit (C13): an object literal all of whose initialisers are constant expressions, two
// or three of which fail at run time (division by zero, minus on text, negative shift count),
// each on its own line. Which one fails first is the first one in source order, every time: the
// literal is parsed and run twice and the first diagnostic must be the same (and name line 2).
func VH_constInit(nkeys int) {
	var texts [2]string
	var lines [2]int
	for run := 0; run < 2; run++ {
		toks := []token.Token{tk(token.PRINT, "print", nil, 1), tk(token.LEFT_PAREN, "(", nil, 1), tk(token.LEFT_BRACE, "{", nil, 1)}
		for i := 0; i < nkeys; i++ {
			ln := i + 2
			if i > 0 {
				toks = append(toks, tk(token.COMMA, ",", nil, ln-1))
			}
			toks = append(toks, tk(token.IDENTIFIER, obKeys[i], nil, ln), tk(token.COLON, ":", nil, ln))
			switch i % 3 {
			case 0:
				toks = append(toks, tk(token.NUMBER, "1", 1.0, ln), tk(token.SLASH, "/", nil, ln), tk(token.NUMBER, "0", 0.0, ln))
			case 1:
				toks = append(toks, tk(token.MINUS, "-", nil, ln), tk(token.STRING, "\"x\"", []rune("x"), ln))
			default:
				toks = append(toks, tk(token.NUMBER, "1", 1.0, ln), tk(token.LEFT_SHIFT, "<<", nil, ln), tk(token.MINUS, "-", nil, ln), tk(token.NUMBER, "1", 1.0, ln))
			}
		}
		toks = append(toks, tk(token.RIGHT_BRACE, "}", nil, nkeys+2), tk(token.RIGHT_PAREN, ")", nil, nkeys+2), tk(token.SEMICOLON, ";", nil, nkeys+2), tk(token.EOF, "", nil, nkeys+2))
		utils.HadError, utils.HadRuntimeError = false, false
		stmts, err := parser.NewParser(toks).Parse()
		if err != nil {
			verifAssert("constant-literal-program-parses", false)
			return
		}
		verifClearEvents()
		NewInterpreter().Interpret(stmts, false)
		verifAssert("missing-diagnostic", utils.HadRuntimeError && hvCountStderr() >= 1)
		for i := 0; i < verifNumEvents(); i++ {
			if verifEventKind(i) == 2 {
				texts[run] = verifEventText(i)
				lines[run] = verifEventB(i)
				break
			}
		}
	}
	verifAssert("diagnostic-text-repeats", texts[0] == texts[1])
	verifAssert("initialisers-run-in-source-order", lines[0] == 2 && lines[1] == 2)
}

// renamePool: identifiers a program may choose — Latin, Bangla, with combining marks, in or out
// of NFC (the lexer takes letters and marks as they come).
var renamePool = []string{"x", "total", "\u09ae\u09cb\u099f", "\u09ac\u09dc", "k\u09df", "cafe\u0301", "\u0995\u09c7\u09be", "\u0995\u09cb", "caf\u00e9"}

// VH_rename (C18d): the same program under a consistent renaming of its variable, function and
// parameter prints the same: declaration, read, plain assignment in a loop, a function taking
// and assigning its parameter, a call.
func VH_rename() {
	base := renamePool[verifChoice(len(renamePool))]
	n, f, p := base, base+"f", base+"p"
	src := kwVar + " " + n + " = 0;\n" +
		kwFor + " (" + kwVar + " i = 1; i <= 3; i = i + 1) { " + n + " = " + n + " + i; }\n" +
		kwPrint + " " + n + ";\n" +
		kwFun + " " + f + "(" + p + ") { " + p + " = " + p + " + 1; " + kwReturn + " " + p + " * 2; }\n" +
		kwPrint + " " + f + "(" + n + ");\n" +
		"{ " + kwVar + " " + n + " = 100; " + n + " = " + n + " + 1; " + kwPrint + " " + n + "; }\n" +
		kwPrint + " " + n + ";\n"
	got, ok := runSource(src)
	verifAssert("renamed-program-runs", ok)
	verifAssert("renaming-does-not-change-what-is-printed", sameLines(got, []string{"6", "14", "101", "6"}))
}

// VH_equivKeys (C13/C12): an object holding two properties whose names are canonically
// equivalent but spelled differently (the same Bangla word with its vowel signs composed or
// decomposed), and a removal given a third spelling. Whatever the removal does — the pinned
// tree reports the key as absent — it does the same every time: the program is run twice, each
// map range in its own order, and output and first diagnostic must repeat.
func VH_equivKeys() {
	// কো নো with (composed, decomposed), (decomposed, composed), (composed, composed)
	s1 := "\u0995\u09cb\u09a8\u09c7\u09be"
	s2 := "\u0995\u09c7\u09be\u09a8\u09cb"
	s3 := "\u0995\u09cb\u09a8\u09cb"
	var outs [2]string
	for run := 0; run < 2; run++ {
		in := NewInterpreter()
		obj := map[string]interface{}{s1: 1.0}
		obj[s2] = 2.0
		in.globals.Define("o", obj)
		prog := []ast.Stmt{
			&ast.ExpressionStatement{Expression: &ast.Call{Callee: &ast.Literal{Value: NativeDeleteFn{}, Line: 2}, Paren: tok(token.RIGHT_PAREN, ")", 2), Arguments: []ast.Expr{ident("o", 2), lit(s3, 2)}}},
			&ast.PrintStatement{Expression: ident("o", 3)},
		}
		utils.HadError, utils.HadRuntimeError = false, false
		verifClearEvents()
		in.Interpret(prog, false)
		for i := 0; i < verifNumEvents(); i++ {
			k := verifEventKind(i)
			if k == 1 || k == 2 {
				outs[run] += fmt.Sprint(k) + ":" + verifEventText(i)
			}
		}
	}
	verifAssert("same-output-every-time", outs[0] == outs[1])
}

// VH_parenProgram (C18e): whole programs in which one value-producing sub-expression is wrapped
// in redundant parentheses — an array element, an operand, an argument, an index, a condition,
// an initialiser — print the same as the unwrapped program. The programs evaluate the wrapped
// construct repeatedly and mutate what it produced in between, so that anything the interpreter
// remembers per syntax node shows.
func VH_parenProgram() {
	where := verifChoice(6)
	w := func(k int, e string) string {
		if k == where {
			return "(" + e + ")"
		}
		return e
	}
	var outs [2][]string
	for run := 0; run < 2; run++ {
		if run == 1 {
			where = -1
		}
		src := kwFun + " bump(k) { " + kwVar + " a = [" + w(0, "0") + ", 0, 0]; a[" + w(1, "k") + "] = a[k] + " + w(2, "1") + "; " + kwReturn + " a; }\n" +
			kwPrint + " bump(0);\n" + kwPrint + " bump(" + w(3, "1") + ");\n" + kwPrint + " bump(2);\n" +
			kwVar + " t = 0;\n" +
			kwFor + " (" + kwVar + " i = " + w(4, "0") + "; " + w(5, "i < 3") + "; i = i + 1) { " + kwVar + " row = [1, 2]; row[0] = row[0] + i; t = t + row[0]; }\n" +
			kwPrint + " t;\n"
		got, ok := runSource(src)
		verifAssert("parenthesised-program-runs", ok)
		outs[run] = got
	}
	verifAssert("parentheses-do-not-change-what-is-printed", sameLines(outs[0], outs[1]))
	verifAssert("parenthesised-program-prints-the-expected", sameLines(outs[1], []string{"[1 0 0]", "[0 1 0]", "[0 0 1]", "6"}))
}
