package interpreter

// C02: evaluateBinary / evaluateUnary against the operator specification of DESIGN E.4.

import (
	"fmt"
	"math"

	"github.com/ah-naf/borno/token"
	"github.com/ah-naf/borno/utils"
)

const (
	clsValue = 0
	clsError = 1
	clsOpen  = 2
	// clsCoerced: a runtime error, or the given value (operators on strings that spell numbers)
	clsCoerced = 3
)

// result kinds of the specification
const (
	rkNum  = 1
	rkStr  = 2
	rkBool = 3
)

type specResult struct {
	cls  int
	kind int
	num  float64
	str  string
	b    bool
}

// specDigitString: the number a one-code-point string spells (a digit of either script), if any.
func specDigitString(t string) (float64, bool) {
	r := []rune(t)
	if len(r) != 1 {
		return 0, false
	}
	if r[0] >= 48 && r[0] <= 57 {
		return float64(r[0] - 48), true
	}
	if r[0] >= 0x9E6 && r[0] <= 0x9EF {
		return float64(r[0] - 0x9E6), true
	}
	return 0, false
}

func specNumText(x float64) string { return fmt.Sprintf("%v", x) }

func inInt64Range(x float64) bool {
	return x >= -9223372036854775808.0 && x < 9223372036854775808.0
}

func isIntegral(x float64) bool {
	if x != x {
		return false
	}
	if !inInt64Range(x) {
		return false
	}
	return math.Trunc(x) == x
}

func specBinary(l interface{}, op token.TokenType, r interface{}) specResult {
	ln, rn := hvIsNum(l), hvIsNum(r)
	ls, rs := hvIsStr(l), hvIsStr(r)
	a, b := hvNum(l), hvNum(r)
	switch op {
	case token.EQUAL_EQUAL, token.BANG_EQUAL:
		eq, open := specEqual(l, r)
		if open {
			return specResult{cls: clsOpen}
		}
		if op == token.BANG_EQUAL {
			eq = !eq
		}
		return specResult{cls: clsValue, kind: rkBool, b: eq}
	case token.PLUS:
		if ln {
			if rn {
				return specResult{cls: clsValue, kind: rkNum, num: a + b}
			}
			if rs {
				return specResult{cls: clsValue, kind: rkStr, str: specNumText(a) + hvStr(r)}
			}
			return specResult{cls: clsError}
		}
		if ls {
			if rs {
				return specResult{cls: clsValue, kind: rkStr, str: hvStr(l) + hvStr(r)}
			}
			if rn {
				return specResult{cls: clsValue, kind: rkStr, str: hvStr(l) + specNumText(b)}
			}
			if _, isBool := r.(bool); isBool {
				return specResult{cls: clsOpen} // string + boolean: not specified
			}
			return specResult{cls: clsError}
		}
		return specResult{cls: clsError}
	}
	// everything below is numeric. A string operand is a wrong type by the statement; the code
	// coerces strings that spell a number. Either reading is accepted — a runtime error, or the
	// result the operator gives on the number spelled — and nothing else: in particular a
	// divisor spelling zero is an error under both.
	if ls || rs {
		if op == token.AND || op == token.OR || op == token.XOR || op == token.LEFT_SHIFT || op == token.RIGHT_SHIFT {
			return specResult{cls: clsOpen}
		}
		x, okx := a, ln
		if ls {
			x, okx = specDigitString(hvStr(l))
		}
		y, oky := b, rn
		if rs {
			y, oky = specDigitString(hvStr(r))
		}
		if !okx || !oky {
			if (ls && !okx && len([]rune(hvStr(l))) > 1) || (rs && !oky && len([]rune(hvStr(r))) > 1) {
				return specResult{cls: clsOpen} // longer texts: numerals beyond single digits are not classified here
			}
			return specResult{cls: clsError}
		}
		if op == token.SLASH || op == token.MODULO {
			if y == 0 {
				return specResult{cls: clsError} // a divisor that is zero — as a number or spelled — never yields a value
			}
		}
		_ = x
		return specResult{cls: clsOpen} // the value on coerced operands is the code's choice: not asserted
	}
	if !ln || !rn {
		return specResult{cls: clsError}
	}
	switch op {
	case token.MINUS:
		return specResult{cls: clsValue, kind: rkNum, num: a - b}
	case token.STAR:
		return specResult{cls: clsValue, kind: rkNum, num: a * b}
	case token.SLASH:
		if b == 0 {
			return specResult{cls: clsError}
		}
		return specResult{cls: clsValue, kind: rkNum, num: a / b}
	case token.MODULO:
		if b == 0 {
			return specResult{cls: clsError}
		}
		return specResult{cls: clsValue, kind: rkNum, num: math.Mod(a, b)}
	case token.POWER:
		return specResult{cls: clsValue, kind: rkNum, num: math.Pow(a, b)}
	case token.GREATER:
		return specResult{cls: clsValue, kind: rkBool, b: a > b}
	case token.GREATER_EQUAL:
		return specResult{cls: clsValue, kind: rkBool, b: a >= b}
	case token.LESS:
		return specResult{cls: clsValue, kind: rkBool, b: a < b}
	case token.LESS_EQUAL:
		return specResult{cls: clsValue, kind: rkBool, b: a <= b}
	case token.AND, token.OR, token.XOR, token.LEFT_SHIFT, token.RIGHT_SHIFT:
		if a != a || b != b {
			return specResult{cls: clsError}
		}
		if !inInt64Range(a) || !inInt64Range(b) {
			// the operators act on 64-bit two's-complement integers: a number outside
			// [-2^63, 2^63) (±Inf included) is not one, and an operand an operator does not
			// support never yields a value
			return specResult{cls: clsError}
		}
		if math.Trunc(a) != a {
			return specResult{cls: clsError}
		}
		if math.Trunc(b) != b {
			return specResult{cls: clsError}
		}
		x, y := int64(a), int64(b)
		var z int64
		switch op {
		case token.AND:
			z = x & y
		case token.OR:
			z = x | y
		case token.XOR:
			z = x ^ y
		case token.LEFT_SHIFT:
			if y < 0 {
				return specResult{cls: clsError}
			}
			z = x << uint64(y)
		case token.RIGHT_SHIFT:
			if y < 0 {
				return specResult{cls: clsError}
			}
			z = x >> uint64(y)
		}
		return specResult{cls: clsValue, kind: rkNum, num: float64(z)}
	}
	return specResult{cls: clsOpen}
}

// specEqual: (equal, open). Total; numbers by value, strings by content, different types unequal.
func specEqual(l, r interface{}) (bool, bool) {
	if hvIsNum(l) {
		if hvIsNum(r) {
			return hvNum(l) == hvNum(r), false
		}
		return false, false
	}
	if hvIsStr(l) {
		if hvIsStr(r) {
			return hvStr(l) == hvStr(r), false
		}
		return false, false
	}
	if l == nil {
		return r == nil, false
	}
	if lb, ok := l.(bool); ok {
		if rb, ok2 := r.(bool); ok2 {
			return lb == rb, false
		}
		return false, false
	}
	// arrays, objects, functions: x == x is true, two different ones are open
	switch l.(type) {
	case []interface{}:
		if _, same := r.([]interface{}); same {
			return verifSameObject(l, r), !verifSameObject(l, r)
		}
		return false, false
	case map[string]interface{}:
		if _, same := r.(map[string]interface{}); same {
			return verifSameObject(l, r), !verifSameObject(l, r)
		}
		return false, false
	case *Function:
		if _, same := r.(*Function); same {
			return verifSameObject(l, r), !verifSameObject(l, r)
		}
		return false, false
	}
	if _, lc := l.(Callable); lc {
		if _, rc := r.(Callable); rc {
			return false, true // two built-ins: open
		}
		return false, false
	}
	return false, true
}

// checkResult compares an operator result with the specification.
func checkResult(pfx string, got interface{}, want specResult, nerr int) {
	switch want.cls {
	case clsOpen:
		verifReach(pfx + "open")
		return
	case clsError:
		verifReach(pfx + "error")
		verifAssert(pfx+"error-reported", utils.HadRuntimeError && nerr >= 1)
		verifAssert(pfx+"error-yields-no-value", got == nil)
		return
	case clsCoerced:
		verifReach(pfx + "coerced")
		if utils.HadRuntimeError {
			verifAssert(pfx+"error-yields-no-value", got == nil && nerr >= 1)
			return
		}
	}
	verifReach(pfx + "value")
	verifAssert(pfx+"value-no-diagnostic", !utils.HadRuntimeError && nerr == 0)
	switch want.kind {
	case rkNum:
		verifAssert(pfx+"result-is-number", hvIsNum(got))
		if hvIsNum(got) {
			verifAssert(pfx+"numeric-result", hvSameFloat(hvNum(got), want.num))
		}
	case rkStr:
		verifAssert(pfx+"result-is-string", hvIsStr(got))
		if hvIsStr(got) {
			verifAssert(pfx+"string-result", hvStr(got) == want.str)
		}
	case rkBool:
		gb, ok := got.(bool)
		verifAssert(pfx+"result-is-boolean", ok)
		if ok {
			verifAssert(pfx+"boolean-result", gb == want.b)
		}
	}
}

// VH_binary: evaluateBinary on two arbitrary values and an arbitrary operator token type.
// sl, sr: payload sizes (text length / element count) of the left and right operand.
func VH_binary(sl int, sr int, opclass int) {
	reach := hvReachable()
	l := hvValue(reach.mask(), sl)
	r := hvValue(reach.mask(), sr)
	ty := verifNondetInt(0, int(token.EOF))
	verifAssume(opClassOf(token.TokenType(ty)) == opclass)
	op := token.Token{Type: token.TokenType(ty), Lexeme: "op", Line: verifNondetInt(1, 1000)}
	utils.HadRuntimeError = false
	got := evaluateBinary(l, op, r)
	nerr := hvCountStderr()
	verifAssert("bin-no-stdout", hvCountStdout() == 0)
	if !isBinaryOp(op.Type) {
		verifAssert("bin-unknown-operator-is-error", utils.HadRuntimeError && got == nil)
		return
	}
	want := specBinary(l, op.Type, r)
	checkResult("bin-", got, want, nerr)
	if nerr > 0 {
		verifAssert("bin-diagnostic-implies-flag-and-nil", utils.HadRuntimeError && got == nil)
	}
}

func isBinaryOp(t token.TokenType) bool {
	switch t {
	case token.PLUS, token.MINUS, token.STAR, token.SLASH, token.MODULO, token.POWER,
		token.EQUAL_EQUAL, token.BANG_EQUAL, token.GREATER, token.GREATER_EQUAL, token.LESS, token.LESS_EQUAL,
		token.AND, token.OR, token.XOR, token.LEFT_SHIFT, token.RIGHT_SHIFT:
		return true
	}
	return false
}

// opClassOf splits the operator space into independent jobs.
func opClassOf(t token.TokenType) int {
	switch t {
	case token.PLUS:
		return 0
	case token.MINUS, token.STAR, token.SLASH:
		return 1
	case token.EQUAL_EQUAL, token.BANG_EQUAL:
		return 2
	case token.GREATER, token.GREATER_EQUAL, token.LESS, token.LESS_EQUAL:
		return 3
	case token.AND, token.OR, token.XOR:
		return 4
	case token.LEFT_SHIFT, token.RIGHT_SHIFT:
		return 5
	case token.POWER, token.MODULO:
		return 6
	}
	return 7
}

// symmetric / reflexive equality (C02 clause)
func VH_equality(sl int, sr int) {
	reach := hvReachable()
	l := hvValue(reach.mask(), sl)
	r := hvValue(reach.mask(), sr)
	op := token.Token{Type: token.EQUAL_EQUAL, Lexeme: "==", Line: 1}
	utils.HadRuntimeError = false
	lr := evaluateBinary(l, op, r)
	rl := evaluateBinary(r, op, l)
	ll := evaluateBinary(l, op, l)
	verifAssert("eq-total", !utils.HadRuntimeError && hvCountStderr() == 0)
	b1, ok1 := lr.(bool)
	b2, ok2 := rl.(bool)
	b3, ok3 := ll.(bool)
	verifAssert("eq-boolean", ok1 && ok2 && ok3)
	if ok1 && ok2 && ok3 {
		verifAssert("eq-symmetric", b1 == b2)
		nan := false
		if hvIsNum(l) {
			if hvNum(l) != hvNum(l) {
				nan = true
			}
		}
		if !nan {
			verifAssert("eq-reflexive", b3)
		}
	}
}

func specUnary(op token.TokenType, x interface{}) specResult {
	switch op {
	case token.BANG:
		return specResult{cls: clsValue, kind: rkBool, b: !specTruthy(x)}
	case token.MINUS:
		if hvIsStr(x) {
			return specResult{cls: clsOpen}
		}
		if !hvIsNum(x) {
			return specResult{cls: clsError}
		}
		return specResult{cls: clsValue, kind: rkNum, num: -hvNum(x)}
	case token.NOT:
		if hvIsStr(x) {
			return specResult{cls: clsOpen}
		}
		if !hvIsNum(x) {
			return specResult{cls: clsError}
		}
		a := hvNum(x)
		if a != a {
			return specResult{cls: clsError}
		}
		if !inInt64Range(a) {
			return specResult{cls: clsError} // not a 64-bit integer
		}
		if math.Trunc(a) != a {
			return specResult{cls: clsError}
		}
		return specResult{cls: clsValue, kind: rkNum, num: float64(^int64(a))}
	}
	return specResult{cls: clsOpen}
}

// specTruthy (E.5)
func specTruthy(v interface{}) bool {
	if v == nil {
		return false
	}
	if b, ok := v.(bool); ok {
		return b
	}
	if hvIsNum(v) {
		return hvNum(v) != 0
	}
	if hvIsStr(v) {
		return hvStr(v) != ""
	}
	return true
}

func VH_unary(sz int) {
	reach := hvReachable()
	x := hvValue(reach.mask(), sz)
	ty := verifNondetInt(0, int(token.EOF))
	op := token.Token{Type: token.TokenType(ty), Lexeme: "op", Line: verifNondetInt(1, 1000)}
	utils.HadRuntimeError = false
	got := evaluateUnary(op, x)
	nerr := hvCountStderr()
	verifAssert("un-no-stdout", hvCountStdout() == 0)
	switch op.Type {
	case token.BANG, token.MINUS, token.NOT:
		checkResult("un-", got, specUnary(op.Type, x), nerr)
	default:
		verifAssert("un-unknown-operator-is-error", utils.HadRuntimeError && got == nil)
	}
}

// VH_truthy: isTruthy against E.5 for every value kind and payload (C14).
func VH_truthy(sz int) {
	reach := hvReachable()
	x := hvValue(reach.mask(), sz)
	verifAssert("truthiness", isTruthy(x) == specTruthy(x))
}

// VH_nested (C02: "random nested expressions over them"): the result of one operator used as
// an operand of a second one. The specification is applied to the specified intermediate
// value, so an intermediate result that is the right number in the wrong host form shows up
// as soon as the second operator treats it differently.
func VH_nested(opclass int, second int) {
	l, r, c := verifNondetFloat(), verifNondetFloat(), verifNondetFloat()
	ty := verifNondetInt(0, int(token.EOF))
	verifAssume(opClassOf(token.TokenType(ty)) == opclass)
	op1 := token.Token{Type: token.TokenType(ty), Lexeme: "op", Line: 1}
	var op2 token.Token
	switch second {
	case 0:
		op2 = tok(token.PLUS, "+", 1)
	case 1:
		op2 = tok(token.LESS, "<", 1)
	case 2:
		op2 = tok(token.AND, "&", 1)
	case 3:
		op2 = tok(token.EQUAL_EQUAL, "==", 1)
	default:
		op2 = tok(token.STAR, "*", 1)
	}
	want1 := specBinary(l, op1.Type, r)
	if want1.cls != clsValue {
		return
	}
	var mid interface{}
	switch want1.kind {
	case rkNum:
		mid = want1.num
	case rkBool:
		mid = want1.b
	default:
		return
	}
	swap := verifNondetBool()
	var want2 specResult
	if swap {
		want2 = specBinary(c, op2.Type, mid)
	} else {
		want2 = specBinary(mid, op2.Type, c)
	}
	utils.HadRuntimeError = false
	verifClearEvents()
	got1 := evaluateBinary(l, op1, r)
	verifAssert("nested-inner-value-no-diagnostic", !utils.HadRuntimeError)
	if utils.HadRuntimeError {
		return
	}
	var got2 interface{}
	if swap {
		got2 = evaluateBinary(c, op2, got1)
	} else {
		got2 = evaluateBinary(got1, op2, c)
	}
	checkResult("nested-", got2, want2, hvCountStderr())
	// and as the operand of the unary operators
	utils.HadRuntimeError = false
	verifClearEvents()
	if want1.kind == rkNum {
		neg := evaluateUnary(tok(token.MINUS, "-", 1), got1)
		checkResult("nested-neg-", neg, specUnary(token.MINUS, mid), hvCountStderr())
	}
}

// VH_concatTwice (C02/C15): two concatenations in one process. What + splices for a number
// depends on that number alone — not on which numbers were spliced before (the two may be equal
// as numbers and still print differently: 0 and -0).
func VH_concatTwice(side int) {
	x, y := verifNondetFloat(), verifNondetFloat()
	op := token.Token{Type: token.PLUS, Lexeme: "+", Line: 3}
	utils.HadRuntimeError = false
	var first, second interface{}
	var want specResult
	if side == 0 {
		first = evaluateBinary(x, op, "a")
		second = evaluateBinary(y, op, "b")
		want = specBinary(y, token.PLUS, "b")
	} else {
		first = evaluateBinary("a", op, x)
		second = evaluateBinary("b", op, y)
		want = specBinary("b", token.PLUS, y)
	}
	_ = first
	checkResult("bin-", second, want, hvCountStderr())
}
