package interpreter

// C12 / C13: histories of object operations through the real parser (object literals), the
// real eval cases and the object built-ins, against the pure map model of DESIGN E.7. The
// iteration order of every Go map range is a fresh symbolic choice made by the executor
// (A-maporder), so "listed exactly once", "keys and values in mutually consistent order",
// "same listing every time" and "initialisers run in source order" are decided for every
// schedule of the host runtime.

import (
	"fmt"

	"github.com/ah-naf/borno/ast"
	"github.com/ah-naf/borno/environment"
	"github.com/ah-naf/borno/parser"
	"github.com/ah-naf/borno/token"
	"github.com/ah-naf/borno/utils"
	"golang.org/x/text/unicode/norm"
)

const (
	nameDelete = "\u0995\u09bf_\u09b0\u09bf\u09ae\u09c1\u09ad"                         // কি_রিমুভ
	nameKeys   = "\u0985\u09ac\u09cd\u099c\u09c7\u0995\u09cd\u099f_\u0995\u09bf"       // অব্জেক্ট_কি
	nameValues = "\u0985\u09ac\u09cd\u099c\u09c7\u0995\u09cd\u099f_\u09ae\u09be\u09a8" // অব্জেক্ট_মান
)

// two of the names differ only in letter case: an ordering that ignores case (or any other
// accidental tie) then depends on the order in which the map hands the keys over
// … and two are canonically equivalent spellings (U+09DF vs U+09AF U+09BC): distinct keys
// that an ordering by normalised form cannot tell apart
var obKeys = [4]string{"ka", "Ka", "k\u09df", "k\u09af\u09bc"}

type mObject struct {
	has  [4]bool
	vals [4]float64
	null [4]bool // the property holds nil
}

var (
	moObj  [4]mObject
	moNext float64
)

func moFresh() float64 {
	moNext++
	return moNext
}

func tk(t token.TokenType, lexeme string, lit interface{}, line int) token.Token {
	return token.Token{Type: t, Lexeme: lexeme, Literal: lit, Line: line}
}

// objectLiteralTokens: `{ k_a : p0() , k_b : p1() , … }` followed by `;` and EOF.
func objectLiteralTokens(keys []int, line int) []token.Token {
	ts := []token.Token{tk(token.LEFT_PAREN, "(", nil, line), tk(token.LEFT_BRACE, "{", nil, line)}
	for i, k := range keys {
		if i > 0 {
			ts = append(ts, tk(token.COMMA, ",", nil, line))
		}
		ts = append(ts, tk(token.IDENTIFIER, obKeys[k], nil, line), tk(token.COLON, ":", nil, line),
			tk(token.IDENTIFIER, fmt.Sprintf("p%d", i), nil, line), tk(token.LEFT_PAREN, "(", nil, line), tk(token.RIGHT_PAREN, ")", nil, line))
	}
	ts = append(ts, tk(token.RIGHT_BRACE, "}", nil, line), tk(token.RIGHT_PAREN, ")", nil, line), tk(token.SEMICOLON, ";", nil, line), tk(token.EOF, "", nil, line))
	return ts
}

func obCompare(obj map[string]interface{}, m *mObject) {
	n := 0
	for k := 0; k < 4; k++ {
		v, ok := obj[obKeys[k]]
		verifAssert("property-presence-as-model", ok == m.has[k])
		if ok {
			if m.has[k] {
				if m.null[k] {
					verifAssert("property-value-as-model", v == nil)
				} else {
					f, isF := v.(float64)
					verifAssert("property-value-as-model", isF && f == m.vals[k])
				}
			}
		}
		if m.has[k] {
			n++
		}
	}
	verifAssert("property-count-as-model", len(obj) == n)
}

// VH_object: an object literal with nkeys distinct keys (through the real parser), then
// `steps` operations.
func VH_object(nkeys int, steps int) {
	in := NewInterpreter()
	env := environment.NewEnvironmentWithParent(in.globals)
	moNext = 0
	vpReset(1, 0, false)
	stOnline = false
	// choose which keys, in which source order
	var keys []int
	m := &moObj[0]
	for k := 0; k < 4; k++ {
		m.has[k] = false
		m.null[k] = false
	}
	start := verifChoice(2)
	for i := 0; i < nkeys; i++ {
		keys = append(keys, (start+i)%4)
	}
	for i := 0; i < nkeys; i++ {
		// initialiser i is the probe p<i>; its value is a fresh number
		v := moFresh()
		vpNew(0, 0, 1)
		vpVals[i][0] = v
		m.null[keys[i]] = false
		if i == 0 {
			if verifChoice(2) == 1 {
				vpVals[i][0] = nil // a property may hold nil; it is still a property
				m.null[keys[i]] = true
			}
		}
		env.Define(fmt.Sprintf("p%d", i), verifProbe{i})
		m.has[keys[i]] = true
		m.vals[keys[i]] = v
	}
	utils.HadError, utils.HadRuntimeError = false, false
	verifClearEvents()
	stmts, err := parser.NewParser(objectLiteralTokens(keys, 1)).Parse()
	verifAssert("object-literal-parses", err == nil && !utils.HadError && len(stmts) == 1)
	if err != nil {
		return
	}
	if len(stmts) != 1 {
		return
	}
	ov, _ := in.eval(stmts[0], env, false)
	obj, isObj := ov.(map[string]interface{})
	verifAssert("object-literal-yields-an-object", isObj && !utils.HadRuntimeError)
	if !isObj {
		return
	}
	// C13: initialisers ran once each, in source order
	next := 0
	for i := 0; i < verifNumEvents(); i++ {
		if verifEventKind(i) == 3 {
			verifAssert("initialisers-run-in-source-order", verifEventA(i) == next)
			next++
		}
	}
	verifAssert("every-initialiser-ran-once", next == nkeys)
	obCompare(obj, m)
	env.Define("o", ov)
	env.Define("q", ov) // alias
	for s := 0; s < steps; s++ {
		line := 10 + s
		k := verifChoice(3) // key k0..k2 (present or absent)
		holder := "o"
		if verifChoice(2) == 1 {
			holder = "q"
		}
		op := verifChoice(6)
		utils.HadRuntimeError = false
		verifClearEvents()
		switch op {
		case 0: // read
			got, _ := in.eval(&ast.PropertyAccess{Object: ident(holder, line), Property: tok(token.IDENTIFIER, obKeys[k], line), Line: line}, env, false)
			if m.has[k] {
				if m.null[k] {
					verifAssert("property-read-yields-its-value", !utils.HadRuntimeError && got == nil && hvCountStderr() == 0)
				} else {
					f, isF := got.(float64)
					verifAssert("property-read-yields-its-value", !utils.HadRuntimeError && isF && f == m.vals[k])
				}
			} else {
				verifAssert("absent-property-read-is-an-error", utils.HadRuntimeError && got == nil && hvCountStderr() >= 1)
				return
			}
		case 1: // write a number or nil
			nv := moFresh()
			var val interface{} = nv
			isNull := verifChoice(2) == 1
			if isNull {
				val = nil
			}
			in.eval(&ast.PropertyAssignment{Object: ident(holder, line), Property: tok(token.IDENTIFIER, obKeys[k], line), Value: lit(val, line), Line: line}, env, false)
			verifAssert("property-write-is-not-an-error", !utils.HadRuntimeError)
			m.has[k] = true
			m.vals[k] = nv
			m.null[k] = isNull
		case 2: // delete
			got, _ := in.eval(callNamed(nameDelete, line, ident(holder, line), lit(obKeys[k], line)), env, false)
			if m.has[k] {
				verifAssert("delete-of-present-key-is-not-an-error", !utils.HadRuntimeError)
				m.has[k] = false
			} else {
				verifAssert("delete-of-absent-key-is-an-error", utils.HadRuntimeError && got == nil)
				return
			}
		case 3: // keys and values: exactly once each, mutually consistent, stable
			kv, _ := in.eval(callNamed(nameKeys, line, ident(holder, line)), env, false)
			vv, _ := in.eval(callNamed(nameValues, line, ident(holder, line)), env, false)
			kv2, _ := in.eval(callNamed(nameKeys, line, ident(holder, line)), env, false)
			verifAssert("listing-is-not-an-error", !utils.HadRuntimeError)
			ks, okk := kv.([]interface{})
			vs, okv := vv.([]interface{})
			ks2, okk2 := kv2.([]interface{})
			verifAssert("listings-are-arrays", okk && okv && okk2)
			if !okk || !okv || !okk2 {
				return
			}
			n := 0
			for i := 0; i < 4; i++ {
				if m.has[i] {
					n++
				}
			}
			verifAssert("keys-lists-every-property", len(ks) == n)
			verifAssert("values-lists-every-property", len(vs) == n)
			verifAssert("keys-listing-repeats", len(ks2) == n)
			if len(ks) != n || len(vs) != n || len(ks2) != n {
				return
			}
			for i := 0; i < n; i++ {
				name := hvStr(ks[i])
				verifAssert("listed-key-is-a-string", hvIsStr(ks[i]))
				idx := -1
				for j := 0; j < 4; j++ {
					if obKeys[j] == name {
						idx = j
					}
				}
				verifAssert("listed-key-is-a-property", idx >= 0 && m.has[idx])
				for i2 := 0; i2 < i; i2++ {
					verifAssert("key-listed-once", hvStr(ks[i2]) != name)
				}
				if idx >= 0 {
					if m.null[idx] {
						verifAssert("ith-value-belongs-to-ith-key", vs[i] == nil)
					} else {
						f, isF := vs[i].(float64)
						verifAssert("ith-value-belongs-to-ith-key", isF && f == m.vals[idx])
					}
				}
				verifAssert("same-listing-every-time", hvStr(ks2[i]) == name)
			}
		case 4: // print shows every property
			in.eval(&ast.PrintStatement{Expression: ident(holder, line)}, env, false)
			verifAssert("print-object-writes-one-line", hvCountStdout() == 1 && !utils.HadRuntimeError)
			if hvCountStdout() == 1 {
				text := verifEventText(0)
				for j := 0; j < 4; j++ {
					if m.has[j] {
						if m.null[j] {
							verifAssert("printed-object-shows-every-property", verifTextContainsInOrder(text, norm.NFC.String(obKeys[j]), "nil"))
						} else {
							verifAssert("printed-object-shows-every-property", verifTextContainsInOrder(text, norm.NFC.String(obKeys[j]), fmt.Sprintf("%v", m.vals[j])))
						}
					}
				}
			}
		default: // property access on a non-object
			other := hvScalar()
			env.Define("z", other)
			got, _ := in.eval(&ast.PropertyAccess{Object: ident("z", line), Property: tok(token.IDENTIFIER, obKeys[k], line), Line: line}, env, false)
			verifAssert("property-of-non-object-is-an-error", utils.HadRuntimeError && got == nil)
			return
		}
		// the alias sees the same object
		o1, _ := env.Get("o")
		o2, _ := env.Get("q")
		verifAssert("aliases-share-the-object", verifSameObject(o1, o2))
		cur, _ := o1.(map[string]interface{})
		obCompare(cur, m)
	}
}

// VH_objectBig (C12): listings of an object with n properties (far beyond the literals of
// VH_object), before and after a change that keeps the number of properties: one property
// removed, one new property set, one value overwritten. Every listing shows every current
// property exactly once, values in the order of the keys.
func VH_objectBig(n int) {
	in := NewInterpreter()
	obj := map[string]interface{}{}
	want := map[string]float64{}
	for i := 0; i < n; i++ {
		k := "k" + string(rune('a'+i))
		obj[k] = float64(i)
		want[k] = float64(i)
	}
	check := func(tag string) {
		kv, err1 := NativeKeysFn{}.Call(in, []interface{}{obj})
		vv, err2 := NativeValuesFn{}.Call(in, []interface{}{obj})
		keys, ok1 := kv.([]interface{})
		vals, ok2 := vv.([]interface{})
		verifAssert("listing-succeeds", err1 == nil && err2 == nil && ok1 && ok2)
		if !(ok1 && ok2) {
			return
		}
		verifAssert("listing-has-one-entry-per-property", len(keys) == len(want) && len(vals) == len(want))
		if len(keys) != len(want) || len(vals) != len(want) {
			return
		}
		seen := map[string]bool{}
		for i := range keys {
			k, isS := keys[i].(string)
			verifAssert("listed-key-is-a-current-property", isS && !seen[k])
			if !isS {
				return
			}
			seen[k] = true
			w, has := want[k]
			verifAssert("listed-key-is-a-current-property", has)
			if has {
				f, isF := vals[i].(float64)
				verifAssert("ith-value-belongs-to-ith-key", isF && f == w)
			}
		}
	}
	check("before")
	// remove one, add one, overwrite one: the count stays n
	victim := "k" + string(rune('a'+verifChoice(n)))
	_, errD := NativeDeleteFn{}.Call(in, []interface{}{obj, victim})
	verifAssert("delete-succeeds", errD == nil)
	delete(want, victim)
	obj["zz"] = 100.0
	want["zz"] = 100.0
	other := "k" + string(rune('a'+(verifChoice(n-1)+1)%n))
	if _, still := want[other]; still {
		obj[other] = 200.0
		want[other] = 200.0
	}
	check("after")
}
