package interpreter

// C17: every math built-in, invoked through the real Call case of eval under its documented
// name, with 0-4 arguments of arbitrary kinds.

import (
	"math"
	"time"

	"github.com/ah-naf/borno/ast"
	"github.com/ah-naf/borno/environment"
	"github.com/ah-naf/borno/token"
	"github.com/ah-naf/borno/utils"
)

var mathNames = [11]string{
	"\u09aa\u09b0\u09ae\u09ae\u09be\u09a8",                   // 0 abs
	"\u09ac\u09b0\u09cd\u0997\u09ae\u09c2\u09b2",             // 1 sqrt
	"\u09b0\u09be\u0989\u09a8\u09cd\u09a1",                   // 2 round
	"\u09b8\u09be\u0987\u09a8",                               // 3 sin
	"\u0995\u09b8\u09be\u0987\u09a8",                         // 4 cos
	"\u099f\u09cd\u09af\u09be\u09a8",                         // 5 tan
	"\u0998\u09be\u09a4",                                     // 6 pow
	"\u09b8\u09b0\u09cd\u09ac\u09a8\u09bf\u09ae\u09cd\u09a8", // 7 min
	"\u09b8\u09b0\u09cd\u09ac\u09cb\u099a\u09cd\u099a",       // 8 max
	"\u0995\u09cd\u09b2\u0995",                               // 9 clock
	"\u09b2\u09c7\u09a8",                                     // 10 len
}

func mathArity(which int) int {
	switch which {
	case 6:
		return 2
	case 9:
		return 0
	case 7, 8:
		return -1
	}
	return 1
}

func specMath1(which int, x float64) float64 {
	switch which {
	case 0:
		return math.Abs(x)
	case 1:
		return math.Sqrt(x)
	case 2:
		return math.Round(x)
	case 3:
		return math.Sin(x)
	case 4:
		return math.Cos(x)
	default:
		return math.Tan(x)
	}
}

// numericArg: (value, is-number, unspecified) — strings are coerced by the code and the
// documentation is silent about them.
func numericArg(v interface{}) (float64, bool, bool) {
	if hvIsStr(v) {
		return 0, false, true
	}
	if hvIsNum(v) {
		return hvNum(v), true, false
	}
	return 0, false, false
}

func VH_math(which int, nargs int) {
	reach := hvReachable()
	in := NewInterpreter()
	env := environment.NewEnvironmentWithParent(in.globals)
	args := make([]interface{}, 0, 4)
	exprs := make([]ast.Expr, 0, 4)
	size := 1
	if which == 7 || which == 8 || which == 10 {
		size = verifChoice(3) // arrays of 0, 1 and 2 elements for the built-ins that take arrays
	}
	for i := 0; i < nargs; i++ {
		v := hvValue(reach.mask(), size)
		args = append(args, v)
		exprs = append(exprs, lit(v, 5))
	}
	utils.HadError, utils.HadRuntimeError = false, false
	verifClearEvents()
	got, sig := in.eval(&ast.Call{Callee: ident(mathNames[which], 5), Paren: tok(token.RIGHT_PAREN, ")", 5), Arguments: exprs}, env, false)
	verifAssert("math-call-returns-a-signal", sig != nil)
	failed := utils.HadRuntimeError
	if failed {
		verifAssert("failed-builtin-yields-no-value", got == nil)
		verifAssert("failed-builtin-writes-a-diagnostic", hvCountStderr() >= 1)
		verifAssert("failed-builtin-names-the-call-line", verifFirstStderrLine() == 5)
	} else {
		verifAssert("successful-builtin-writes-no-diagnostic", hvCountStderr() == 0)
	}
	ar := mathArity(which)
	if ar >= 0 {
		if nargs != ar {
			verifAssert("wrong-argument-count-is-an-error", failed)
			return
		}
	}
	switch which {
	case 9:
		verifAssert("clock-succeeds", !failed)
		verifAssert("clock-yields-a-number", hvIsNum(got))
		return
	case 6:
		a, aok, aopen := numericArg(args[0])
		b, bok, bopen := numericArg(args[1])
		if aopen || bopen {
			// a string argument: the statement calls it a wrong type, the code coerces numeric
			// strings; either way a call that succeeds yields a number
			verifAssert("math-result-is-a-number", failed || hvIsNum(got))
			return
		}
		if !aok || !bok {
			verifAssert("non-numeric-argument-is-an-error", failed)
			return
		}
		verifAssert("pow-succeeds-on-numbers", !failed)
		if !failed {
			verifAssert("pow-result", hvIsNum(got) && hvSameFloat(hvNum(got), math.Pow(a, b)))
			// ঘাত(a,b) is identical to a ** b
			utils.HadRuntimeError = false
			viaOp := evaluateBinary(args[0], tok(token.POWER, "**", 5), args[1])
			verifAssert("pow-identical-to-operator", hvIsNum(viaOp) && hvSameFloat(hvNum(viaOp), hvNum(got)))
		}
		return
	case 7, 8:
		specMinMax(which == 7, args, nargs, got, failed)
		return
	case 10:
		arr, isArr := args[0].([]interface{})
		if !isArr {
			verifAssert("length-of-non-array-is-an-error", failed)
			return
		}
		verifAssert("length-succeeds", !failed && hvIsNum(got) && hvNum(got) == float64(len(arr)))
		return
	}
	x, ok, open := numericArg(args[0])
	if open {
		verifAssert("math-result-is-a-number", failed || hvIsNum(got))
		return
	}
	if !ok {
		verifAssert("non-numeric-argument-is-an-error", failed)
		return
	}
	verifAssert("math-succeeds-on-a-number", !failed)
	if !failed {
		verifAssert("math-result-is-a-number", hvIsNum(got))
		if hvIsNum(got) {
			verifAssert("math-result", hvSameFloat(hvNum(got), specMath1(which, x)))
		}
	}
}

func verifFirstStderrLine() int {
	for i := 0; i < verifNumEvents(); i++ {
		if verifEventKind(i) == 2 {
			return verifEventB(i)
		}
	}
	return -1
}

// specMinMax: least/greatest of the numeric arguments, or of the elements of a single array
// argument; nothing to compare or a non-number is an error. NaN operands are excluded.
func specMinMax(isMin bool, args []interface{}, nargs int, got interface{}, failed bool) {
	list := args
	if nargs == 1 {
		if arr, isArr := args[0].([]interface{}); isArr {
			list = arr
		}
	}
	if len(list) == 0 {
		verifAssert("minmax-of-nothing-is-an-error", failed)
		return
	}
	best := 0.0
	for i := 0; i < len(list); i++ {
		x, ok, open := numericArg(list[i])
		if open {
			// a string among the arguments (see VH_math): if the call succeeds its result is a number
			verifAssert("minmax-result-is-a-number", failed || hvIsNum(got))
			return
		}
		if !ok {
			verifAssert("minmax-of-non-number-is-an-error", failed)
			return
		}
		if x != x {
			return // NaN: excluded from the claim
		}
		if i == 0 {
			best = x
		} else if isMin {
			if x < best {
				best = x
			}
		} else {
			if x > best {
				best = x
			}
		}
	}
	verifAssert("minmax-succeeds-on-numbers", !failed)
	if !failed {
		verifAssert("minmax-result-is-a-number", hvIsNum(got))
		if hvIsNum(got) {
			// ±0 are equal as numbers: compare by value
			verifAssert("minmax-result", hvNum(got) == best)
		}
	}
}

// powCases: whole-number exponents and base intervals in which computing the power any other
// way than the platform's pow shows: a reciprocal taken after an overflowing product loses a
// representable (subnormal) result (base^|n| overflows, base^n does not underflow to zero), and
// small exponents on a generic base. (Go's own pow multiplies by repeated squaring for whole
// exponents, so long products alone do not tell the two apart.)
var powCases = []struct {
	n      float64
	lo, hi float64
}{
	{-1074, 2.0, 2.0},
	{-310, 10.0, 10.0},
	{-62, 100000, 100000},
	{-1030, 2.0, 2.03},
	{5, 1.0001, 1.9999},
	{-3, 3.0001, 3.9999},
}

// VH_powWhole (C17): ঘাত(a, n) for a concrete whole n and every a of an interval is the
// platform's pow(a, n) and identical to a ** n. pow is an uninterpreted function here, so an
// implementation that computes whole powers any other way is refuted by the solver; the
// intervals make the refutation show natively.
func VH_powWhole(k int) {
	c := powCases[k]
	a := verifNondetFloat()
	verifAssume(a >= c.lo && a <= c.hi)
	in := NewInterpreter()
	env := environment.NewEnvironmentWithParent(in.globals)
	utils.HadError, utils.HadRuntimeError = false, false
	verifClearEvents()
	got, _ := in.eval(&ast.Call{Callee: ident(mathNames[6], 5), Paren: tok(token.RIGHT_PAREN, ")", 5), Arguments: []ast.Expr{lit(a, 5), lit(c.n, 5)}}, env, false)
	verifAssert("pow-succeeds-on-numbers", !utils.HadRuntimeError)
	if utils.HadRuntimeError {
		return
	}
	verifAssert("pow-result", hvIsNum(got) && hvSameFloat(hvNum(got), math.Pow(a, c.n)))
	viaOp := evaluateBinary(a, tok(token.POWER, "**", 5), c.n)
	verifAssert("power-operator-result", hvIsNum(viaOp) && hvSameFloat(hvNum(viaOp), math.Pow(a, c.n)))
	verifAssert("pow-identical-to-operator", hvIsNum(viaOp) && hvSameFloat(hvNum(viaOp), hvNum(got)))
}

// VH_clock (C17): ক্লক() is the current Unix time in seconds — between two readings of the
// system clock taken around the call (within a millisecond), whatever the time zone of the
// process. In the symbolic run the clock is frozen at an arbitrary instant and the zone offset of
// time.Local is an arbitrary whole number of hours; natively the counterexample's zone is set
// through TZ.
func VH_clock() {
	in := NewInterpreter()
	env := environment.NewEnvironmentWithParent(in.globals)
	utils.HadError, utils.HadRuntimeError = false, false
	verifClearEvents()
	t0 := time.Now().UnixMilli()
	got, _ := in.eval(&ast.Call{Callee: ident(mathNames[9], 5), Paren: tok(token.RIGHT_PAREN, ")", 5)}, env, false)
	t1 := time.Now().UnixMilli()
	verifAssert("clock-succeeds", !utils.HadRuntimeError)
	verifAssert("clock-yields-a-number", hvIsNum(got))
	if hvIsNum(got) {
		v := hvNum(got)
		// (the first test settles the frozen clock of the symbolic run without floating-point
		// reasoning; the interval is what holds natively)
		ok := hvSameFloat(v, float64(t0)/1000.0)
		if !ok {
			ok = v >= float64(t0-1)/1000.0 && v <= float64(t1+1)/1000.0
		}
		verifAssert("clock-is-the-current-unix-time", ok)
	}
}
