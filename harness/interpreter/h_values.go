package interpreter

// Symbolic Borno values for the interpreter harnesses.
//
// A Borno value can have several host representations (DESIGN A.5). Which ones can really
// occur is a fact about the current tree, not a constant of the harness: hvReachable() runs
// the real producers (lexer + parser + eval of a string literal, a bitwise operator, the
// length built-in) concretely and reports the host kinds they yield, and hvValue() ranges
// over those only. Asserting anything about an unreachable representation would be a false
// alarm.

import (
	"math"

	"github.com/ah-naf/borno/ast"
	"github.com/ah-naf/borno/environment"
	"github.com/ah-naf/borno/lexer"
	"github.com/ah-naf/borno/parser"
	"github.com/ah-naf/borno/token"
	"github.com/ah-naf/borno/utils"
)

const (
	hkNil = iota
	hkBool
	hkFloat
	hkInt64
	hkInt
	hkString
	hkRunes
	hkArray
	hkObject
	hkFunc
	hkNative
	hkCount
)

// hvEvalSource runs the real front end and evaluator on a concrete one-expression program
// and returns the value of its last expression statement.
func hvEvalSource(src string) interface{} {
	utils.HadError = false
	utils.HadRuntimeError = false
	toks := lexer.NewScanner([]rune(src)).ScanTokens()
	stmts, _ := parser.NewParser(toks).Parse()
	if utils.HadError {
		return nil
	}
	if len(stmts) == 0 {
		return nil
	}
	in := NewInterpreter()
	res := in.Interpret(stmts, false)
	if len(res) == 0 {
		return nil
	}
	return res[len(res)-1]
}

type hvKinds struct {
	litRunes, litString bool // host kind of a string literal's value
	bitInt64            bool // bitwise operators yield int64 (otherwise float64)
	lenInt              bool // the length built-in yields int (otherwise float64)
	notInt64            bool // ~x yields int64
}

func hvReachable() hvKinds {
	var k hvKinds
	s := hvEvalSource("\"ab\";")
	if _, ok := s.([]rune); ok {
		k.litRunes = true
	}
	if _, ok := s.(string); ok {
		k.litString = true
	}
	b := hvEvalSource("6 | 1;")
	if _, ok := b.(int64); ok {
		k.bitInt64 = true
	}
	n := hvEvalSource("~5;")
	if _, ok := n.(int64); ok {
		k.notInt64 = true
	}
	l := hvEvalSource("\u09b2\u09c7\u09a8([1, 2]);")
	if _, ok := l.(int); ok {
		k.lenInt = true
	}
	verifClearEvents()
	utils.HadError = false
	utils.HadRuntimeError = false
	return k
}

func (k hvKinds) mask() int {
	m := 1<<hkNil | 1<<hkBool | 1<<hkFloat | 1<<hkString | 1<<hkArray | 1<<hkObject | 1<<hkFunc | 1<<hkNative
	if k.litRunes {
		m |= 1 << hkRunes
	}
	if k.bitInt64 || k.notInt64 {
		m |= 1 << hkInt64
	}
	if k.lenInt {
		m |= 1 << hkInt
	}
	return m
}

// hvText: a symbolic text of exactly n code points.
func hvText(n int) []rune {
	r := make([]rune, n)
	for i := 0; i < n; i++ {
		r[i] = verifNondetRune()
	}
	return r
}

func hvFunction() *Function {
	decl := &ast.FunctionStmt{Name: token.Token{Type: token.IDENTIFIER, Lexeme: "f", Line: 1}}
	return NewFunction(decl, environment.NewEnvironment())
}

// hvValue: an arbitrary Borno value whose host kind is one of mask; text, array and object
// payloads have `size` elements (the caller forks over sizes). The kind stays symbolic.
func hvValue(mask int, size int) interface{} {
	k := verifNondetInt(0, hkCount-1)
	verifAssume((mask>>uint(k))&1 == 1)
	txt := hvText(size)
	var nilv interface{}
	arr := make([]interface{}, 0, 4)
	obj := map[string]interface{}{}
	for i := 0; i < size; i++ {
		arr = append(arr, hvScalar())
		if i == 0 {
			obj["k0"] = hvScalar()
		} else {
			obj["k1"] = hvScalar()
		}
	}
	txtCopy := make([]rune, size)
	copy(txtCopy, txt)
	return verifSelect(k, nilv, verifNondetBool(), verifNondetFloat(), verifNondetInt64(), int(verifNondetInt64()),
		string(txt), txtCopy, arr, obj, hvFunction(), NativeLenFn{})
}

// hvScalar: nil, boolean or number (element values of array/object payloads).
func hvScalar() interface{} {
	k := verifNondetInt(0, 2)
	var nilv interface{}
	return verifSelect(k, nilv, verifNondetBool(), verifNondetFloat())
}

// ---- abstraction α: the Borno value denoted by a host value ----

func hvIsNum(v interface{}) bool {
	switch v.(type) {
	case float64, int64, int:
		return true
	}
	return false
}

// hvNum: the double denoted by a number of any representation (exact for |int| <= 2^53).
func hvNum(v interface{}) float64 {
	switch x := v.(type) {
	case float64:
		return x
	case int64:
		return float64(x)
	case int:
		return float64(x)
	}
	return 0
}

func hvIsStr(v interface{}) bool {
	switch v.(type) {
	case string, []rune:
		return true
	}
	return false
}

func hvStr(v interface{}) string {
	switch x := v.(type) {
	case string:
		return x
	case []rune:
		return string(x)
	}
	return ""
}

// hvSameFloat: identical doubles (NaN equals NaN, +0 differs from -0).
func hvSameFloat(a, b float64) bool {
	if a != a {
		return b != b
	}
	if b != b {
		return false
	}
	if a != b {
		return false
	}
	return math.Signbit(a) == math.Signbit(b)
}

func hvCountStderr() int {
	n := 0
	for i := 0; i < verifNumEvents(); i++ {
		if verifEventKind(i) == 2 {
			n++
		}
	}
	return n
}

func hvCountStdout() int {
	n := 0
	for i := 0; i < verifNumEvents(); i++ {
		if verifEventKind(i) == 1 {
			n++
		}
	}
	return n
}

func lexTokens(src string) []token.Token {
	utils.HadError = false
	t := lexer.NewScanner([]rune(src)).ScanTokens()
	verifClearEvents()
	utils.HadError = false
	return t
}
