package interpreter

// C15: what the print statement writes, against the text specification of DESIGN E.5.
// C16: representation independence — every consumer run on two host representations of the
// same Borno value must behave the same.

import (
	"fmt"
	"strings"

	"github.com/ah-naf/borno/ast"
	"github.com/ah-naf/borno/environment"
	"github.com/ah-naf/borno/parser"
	"github.com/ah-naf/borno/token"
	"github.com/ah-naf/borno/utils"
	"golang.org/x/text/unicode/norm"
)

// specScalarText: nil, booleans, numbers, strings. ok=false for containers/functions.
func specScalarText(v interface{}) (string, bool) {
	if v == nil {
		return "nil", true
	}
	if b, ok := v.(bool); ok {
		if b {
			return "true", true
		}
		return "false", true
	}
	if hvIsNum(v) {
		return fmt.Sprintf("%v", hvNum(v)), true
	}
	if hvIsStr(v) {
		return hvStr(v), true
	}
	return "", false
}

// VH_print: the real PrintStatement on an arbitrary value.
func VH_print(size int, isRepl int) {
	reach := hvReachable()
	v := hvValue(reach.mask(), size)
	// the specification first: this fixes the kinds of the value and of its elements on each
	// path before anything is formatted
	scalarText, isScalar := specScalarText(v)
	parts := []string{}
	arr, isArr := v.([]interface{})
	if isArr {
		for _, e := range arr {
			s, _ := specScalarText(e)
			parts = append(parts, s)
		}
	}
	obj, isObj := v.(map[string]interface{})
	objText := [2]string{}
	objHas := [2]bool{}
	if isObj {
		for i, k := range []string{"k0", "k1"} {
			if e, has := obj[k]; has {
				objHas[i] = true
				objText[i], _ = specScalarText(e)
			}
		}
	}
	in := NewInterpreter()
	env := environment.NewEnvironment()
	utils.HadError, utils.HadRuntimeError = false, false
	verifClearEvents()
	_, sig := in.eval(&ast.PrintStatement{Expression: lit(v, 3)}, env, isRepl == 1)
	verifAssert("print-returns-a-signal", sig != nil)
	verifAssert("print-writes-no-diagnostic", hvCountStderr() == 0 && !utils.HadRuntimeError)
	verifAssert("print-writes-exactly-one-line", hvCountStdout() == 1)
	if hvCountStdout() != 1 {
		return
	}
	text := verifEventText(0)
	if isScalar {
		verifReach("scalar")
		verifAssert("printed-text-is-the-value-text-plus-newline", text == norm.NFC.String(scalarText)+"\n")
		return
	}
	if isArr {
		verifReach("array")
		verifDebug(text, parts)
		verifAssert("printed-array-shows-its-elements-in-order", verifTextContainsInOrder(text, parts...))
		return
	}
	if isObj {
		verifReach("object")
		for i, k := range []string{"k0", "k1"} {
			if objHas[i] {
				verifAssert("printed-object-shows-key-and-value", verifTextContainsInOrder(text, k, objText[i]))
			}
		}
		return
	}
	verifReach("function")
}

// VH_printNested: strings inside arrays and objects print as their characters (C15).
func VH_printNested(n int, inObject int) {
	in := NewInterpreter()
	env := environment.NewEnvironmentWithParent(in.globals)
	var txt []rune
	if n == 0 {
		// a concrete Bangla text with a character that has a canonical decomposition (U+09CB)
		// and the composition-excluded U+09DF: the real NFC runs on it
		txt = []rune("\u0995\u09cb\u09df\u09be")
	} else {
		txt = hvText(n)
		for i := 0; i < n; i++ {
			// below U+0300 normalisation is the identity and no combining mark exists; above it
			// NFC is an uninterpreted function and containment cannot be decided
			verifAssume(txt[i] < 0x300)
			verifAssume(txt[i] >= 0x20)
		}
	}
	// the string reaches the container the way a program's literal does: through eval(Literal)
	sv, _ := in.eval(lit(stringLiteralValue(txt), 2), env, false)
	utils.HadError, utils.HadRuntimeError = false, false
	var node ast.Expr
	if inObject == 1 {
		node = objectLiteralVia(env, lit(stringLiteralValue(txt), 2))
	} else {
		node = &ast.ArrayLiteral{Elements: []ast.Expr{lit(stringLiteralValue(txt), 2), lit(7.0, 2)}, Line: 2}
	}
	_ = sv
	verifClearEvents()
	in.eval(&ast.PrintStatement{Expression: node}, env, false)
	verifAssert("nested-print-one-line", hvCountStdout() == 1 && hvCountStderr() == 0)
	if hvCountStdout() == 1 {
		verifAssert("nested-string-prints-as-its-characters", verifTextContainsInOrder(verifEventText(0), norm.NFC.String(string(txt))))
	}
}

// stringLiteralValue: the host value the real lexer puts into a STRING token for this text.
func stringLiteralValue(txt []rune) interface{} {
	probe := hvEvalLiteralKind()
	if probe == hkString {
		return string(txt)
	}
	c := make([]rune, len(txt))
	copy(c, txt)
	return c
}

var hvLitKindCache = -1

// hvEvalLiteralKind: which host kind the real lexer stores in a STRING token's literal.
func hvEvalLiteralKind() int {
	if hvLitKindCache >= 0 {
		return hvLitKindCache
	}
	toks := lexTokens("\"ab\"")
	hvLitKindCache = hkRunes
	if len(toks) > 0 {
		if _, ok := toks[0].Literal.(string); ok {
			hvLitKindCache = hkString
		}
	}
	return hvLitKindCache
}

// ---- C16 ----

// relPair: two host representations of the same Borno value, if the tree has two.
// class 0: string vs []rune (same text of n code points); class 1: float64 vs int64;
// class 2: float64 vs int (numbers restricted to |n| <= 2^53 so that both denote the same number);
// class 3: whatever producer n yields vs the canonical representation of the same value.
func relPair(class int, n int, reach hvKinds) (interface{}, interface{}, bool) {
	switch class {
	case 0:
		if !reach.litRunes {
			return nil, nil, false
		}
		txt := hvText(n)
		c := make([]rune, n)
		copy(c, txt)
		return string(txt), c, true
	case 1:
		if !reach.bitInt64 && !reach.notInt64 {
			return nil, nil, false
		}
		i := verifNondetInt64()
		verifAssume(i >= -9007199254740992 && i <= 9007199254740992)
		return float64(i), i, true
	case 2:
		if !reach.lenInt {
			return nil, nil, false
		}
		i := verifNondetInt64()
		verifAssume(i >= 0 && i <= 9007199254740992)
		return float64(i), int(i), true
	}
	// class 3: the value is produced by running producer n of the real interpreter on
	// symbolic arguments; it is paired with the canonical representation (float64 / string)
	// of the same Borno value. If the producer already yields the canonical representation
	// the pair is trivial and nothing is compared.
	got, ok := producedValue(n)
	if !ok {
		return nil, nil, false
	}
	// the other member of the pair is the same Borno value produced by a literal: what the
	// real evaluator yields for a literal token carrying that number / text
	in := NewInterpreter()
	env := environment.NewEnvironment()
	if hvIsNum(got) {
		viaLiteral, _ := in.eval(lit(hvNum(got), 4), env, false)
		return viaLiteral, got, true
	}
	if hvIsStr(got) {
		viaLiteral, _ := in.eval(lit(hvStr(got), 4), env, false)
		return viaLiteral, got, true
	}
	return nil, nil, false
}

const numProducers = 19

// producedValue: the result of producer p on symbolic numeric arguments.
func producedValue(p int) (interface{}, bool) {
	in := NewInterpreter()
	env := environment.NewEnvironmentWithParent(in.globals)
	x, y := verifNondetFloat(), verifNondetFloat()
	utils.HadError, utils.HadRuntimeError = false, false
	var got interface{}
	switch {
	case p <= 5: // abs sqrt round sin cos tan
		got, _ = in.eval(callNamed(mathNames[p], 4, lit(x, 4)), env, false)
	case p <= 8: // pow min max
		got, _ = in.eval(callNamed(mathNames[p], 4, lit(x, 4), lit(y, 4)), env, false)
	case p == 9: // length
		got, _ = in.eval(callNamed(mathNames[10], 4, lit([]interface{}{x, y}, 4)), env, false)
	case p == 10:
		got = evaluateBinary(x, tok(token.OR, "|", 4), y)
	case p == 11:
		got = evaluateBinary(x, tok(token.LEFT_SHIFT, "<<", 4), y)
	case p == 12:
		got = evaluateUnary(tok(token.NOT, "~", 4), x)
	case p == 13:
		got = evaluateBinary(x, tok(token.PLUS, "+", 4), y)
	case p == 14:
		got = evaluateBinary(x, tok(token.MODULO, "%", 4), y)
	case p == 16:
		got = evaluateBinary(x, tok(token.RIGHT_SHIFT, ">>", 4), y)
	case p == 17:
		got = evaluateBinary(x, tok(token.AND, "&", 4), y)
	case p == 18:
		got = evaluateBinary(x, tok(token.XOR, "^", 4), y)
	default: // string concatenation
		got = evaluateBinary("a", tok(token.PLUS, "+", 4), string(hvText(1)))
	}
	failed := utils.HadRuntimeError
	utils.HadRuntimeError = false
	verifClearEvents()
	if failed {
		return nil, false
	}
	return got, true
}

// sameOutcome: two consumer results denote the same Borno value (under α).
func sameOutcome(a, b interface{}) bool {
	if hvIsNum(a) {
		return hvIsNum(b) && hvSameFloat(hvNum(a), hvNum(b))
	}
	if hvIsStr(a) {
		return hvIsStr(b) && hvStr(a) == hvStr(b)
	}
	if a == nil {
		return b == nil
	}
	if x, ok := a.(bool); ok {
		y, ok2 := b.(bool)
		return ok2 && x == y
	}
	return verifSameObject(a, b)
}

// VH_rel: consumer `which` applied to both representations.
func VH_rel(class int, n int, which int) {
	reach := hvReachable()
	v1, v2, ok := relPair(class, n, reach)
	if !ok {
		verifReach("single-representation")
		return
	}
	verifReach("two-representations")
	in := NewInterpreter()
	env := environment.NewEnvironmentWithParent(in.globals)
	other := hvValue(reach.mask(), 1)
	opTy := verifNondetInt(0, int(token.EOF))
	op := tok(token.TokenType(opTy), "op", 4)
	var r [2]interface{}
	var failed [2]bool
	var out [2]string
	for side := 0; side < 2; side++ {
		v := v1
		if side == 1 {
			v = v2
		}
		utils.HadRuntimeError = false
		verifClearEvents()
		switch which {
		case 0: // left operand
			verifAssume(isBinaryOp(op.Type))
			r[side] = evaluateBinary(v, op, other)
		case 1: // right operand
			verifAssume(isBinaryOp(op.Type))
			r[side] = evaluateBinary(other, op, v)
		case 2: // unary operand
			r[side] = evaluateUnary(op, v)
		case 3: // condition
			r[side] = isTruthy(v)
		case 4: // printed alone
			in.eval(&ast.PrintStatement{Expression: lit(v, 4)}, env, false)
		case 5: // printed inside an array
			in.eval(&ast.PrintStatement{Expression: &ast.ArrayLiteral{Elements: []ast.Expr{lit(v, 4)}, Line: 4}}, env, false)
		case 6: // array index
			arr := []interface{}{1.0, 2.0, 3.0}
			r[side], _ = in.eval(&ast.ArrayAccess{Array: lit(arr, 4), Index: lit(v, 4), Line: 4}, env, false)
		case 7: // argument of a math built-in
			r[side], _ = in.eval(callNamed(mathNames[0], 4, lit(v, 4)), env, false)
		case 8: // stored in an object property and read back
			ov, _ := in.eval(objectLiteralVia(env, lit(v, 4)), env, false)
			r[side], _ = in.eval(&ast.PropertyAccess{Object: lit(ov, 4), Property: tok(token.IDENTIFIER, "k0", 4), Line: 4}, env, false)
			in.eval(&ast.PrintStatement{Expression: lit(ov, 4)}, env, false)
		case 9: // key argument of the delete built-in
			obj := map[string]interface{}{"k0": 1.0}
			r[side], _ = in.eval(callNamed(nameDelete, 4, lit(obj, 4), lit(v, 4)), env, false)
			if r[side] != nil {
				r[side] = true
			}
		default: // equality with itself in the other representation
			r[side] = evaluateBinary(v, tok(token.EQUAL_EQUAL, "==", 4), v1)
		}
		failed[side] = utils.HadRuntimeError
		if hvCountStdout() == 1 {
			for i := 0; i < verifNumEvents(); i++ {
				if verifEventKind(i) == 1 {
					out[side] = verifEventText(i)
				}
			}
		}
		if hvCountStdout() > 1 {
			verifAssert("at-most-one-line-printed", false)
		}
	}
	verifAssert("same-failure-for-both-representations", failed[0] == failed[1])
	if !failed[0] {
		if !failed[1] {
			verifAssert("same-result-for-both-representations", sameOutcome(r[0], r[1]))
			verifAssert("same-output-for-both-representations", out[0] == out[1])
		}
	}
}

// objectLiteralVia: the node the real parser builds for `({ k0 : v0 })`, with v0 bound to
// the value of e in env (so that the harness does not depend on how the tree stores the
// properties of an object literal).
func objectLiteralVia(env *environment.Environment, e *ast.Literal) ast.Expr {
	env.Values["v0"] = e.Value
	toks := []token.Token{tk(token.LEFT_PAREN, "(", nil, 2), tk(token.LEFT_BRACE, "{", nil, 2), tk(token.IDENTIFIER, "k0", nil, 2), tk(token.COLON, ":", nil, 2),
		tk(token.IDENTIFIER, "v0", nil, 2), tk(token.RIGHT_BRACE, "}", nil, 2), tk(token.RIGHT_PAREN, ")", nil, 2), tk(token.SEMICOLON, ";", nil, 2), tk(token.EOF, "", nil, 2)}
	saved := utils.HadError
	stmts, err := parser.NewParser(toks).Parse()
	utils.HadError = saved
	if err != nil {
		verifAssume(false)
	}
	if len(stmts) != 1 {
		verifAssume(false)
	}
	es, ok := stmts[0].(*ast.ExpressionStatement)
	if !ok {
		verifAssume(false)
	}
	return es.Expression
}

// VH_printShared (C15): a value that holds the same array or object twice (not inside
// itself) shows it twice.
func VH_printShared(which int) {
	in := NewInterpreter()
	env := environment.NewEnvironmentWithParent(in.globals)
	utils.HadError, utils.HadRuntimeError = false, false
	inner, _ := in.eval(&ast.ArrayLiteral{Elements: []ast.Expr{lit(1.0, 1), lit(2.0, 1)}, Line: 1}, env, false)
	obj, _ := in.eval(objectLiteralVia(env, lit(5.0, 1)), env, false)
	env.Define("r", inner)
	env.Define("o", obj)
	var node ast.Expr
	switch which {
	case 0: // [r, r]
		node = &ast.ArrayLiteral{Elements: []ast.Expr{ident("r", 2), ident("r", 2)}, Line: 2}
	case 1: // [o, o]
		node = &ast.ArrayLiteral{Elements: []ast.Expr{ident("o", 2), ident("o", 2)}, Line: 2}
	case 3: // {a: o, b: o, c: {d: o}}: an object holding the same object under several properties
		env.Define("p", map[string]interface{}{"a": obj, "b": obj, "c": map[string]interface{}{"d": obj}})
		node = ident("p", 2)
	case 4: // {a: {x: 1, y: 2, z: 3}, b: 4, c: {u: 5}}: nested objects with several properties, with siblings after them
		env.Define("p", map[string]interface{}{"a": map[string]interface{}{"x": 1.0, "y": 2.0, "z": 3.0}, "b": 4.0, "c": map[string]interface{}{"u": 5.0}})
		node = ident("p", 2)
	default: // [[o], o, [r, o]]
		node = &ast.ArrayLiteral{Elements: []ast.Expr{&ast.ArrayLiteral{Elements: []ast.Expr{ident("o", 2)}, Line: 2}, ident("o", 2), &ast.ArrayLiteral{Elements: []ast.Expr{ident("r", 2), ident("o", 2)}, Line: 2}}, Line: 2}
	}
	verifClearEvents()
	in.eval(&ast.PrintStatement{Expression: node}, env, false)
	verifAssert("shared-print-one-line", hvCountStdout() == 1 && hvCountStderr() == 0)
	if hvCountStdout() == 1 {
		text := verifEventText(0)
		if which == 4 {
			verifAssert("printed-object-shows-every-property", verifTextContainsInOrder(text, "a", "x", "1", "y", "2", "z", "3", "b", "4", "c", "u", "5"))
		} else if which == 3 {
			verifAssert("printed-value-shows-a-shared-part-every-time", verifTextContainsInOrder(text, "a", "k0", "5", "b", "k0", "5", "d", "k0", "5"))
		} else if which == 2 {
			verifAssert("printed-value-shows-a-shared-part-every-time", verifTextContainsInOrder(text, "k0", "5", "k0", "5", "1", "2", "k0", "5"))
		} else {
			if which == 0 {
				verifAssert("printed-value-shows-a-shared-part-every-time", verifTextContainsInOrder(text, "1", "2", "1", "2"))
			} else {
				verifAssert("printed-value-shows-a-shared-part-every-time", verifTextContainsInOrder(text, "k0", "5", "k0", "5"))
			}
		}
	}
}

// nfcTexts: texts that are not in NFC — a Latin letter followed by a combining accent (NFC
// composes it), the composition-excluded Bangla U+09DF / U+09DC (NFC decomposes them), and
// the two-part vowel sign written as its parts U+09C7 U+09BE (NFC composes U+09CB).
var nfcTexts = []string{"cafe\u0301", "k\u09df", "\u09ac\u09dc", "\u0995\u09c7\u09be"}

// VH_printNFC (C15): the whole line দেখাও writes is in NFC and shows the text, wherever the text
// sits: as the printed string (0), inside an array (1), as a property value (2), as a property
// NAME (3), as name and value in an object inside an array (4).
func VH_printNFC(where int) {
	t := nfcTexts[verifChoice(len(nfcTexts))]
	in := NewInterpreter()
	env := environment.NewEnvironmentWithParent(in.globals)
	sv, _ := in.eval(lit(stringLiteralValue([]rune(t)), 2), env, false)
	var v interface{}
	switch where {
	case 0:
		v = sv
	case 1:
		v = []interface{}{sv, 7.0}
	case 2:
		v = map[string]interface{}{"a": sv}
	case 3:
		v = map[string]interface{}{t: 1.0}
	default:
		v = []interface{}{map[string]interface{}{t: sv}}
	}
	env.Define("x", v)
	utils.HadError, utils.HadRuntimeError = false, false
	verifClearEvents()
	// a print statement is the same in a script and on a REPL line
	isRepl := verifChoice(2) == 1
	in.eval(&ast.PrintStatement{Expression: ident("x", 2)}, env, isRepl)
	verifAssert("nested-print-one-line", hvCountStdout() == 1 && hvCountStderr() == 0)
	if hvCountStdout() == 1 {
		text := verifEventText(0)
		verifAssert("printed-line-is-in-nfc", norm.NFC.String(text) == text)
		verifAssert("nested-string-prints-as-its-characters", verifTextContainsInOrder(text, norm.NFC.String(t)))
	}
}

// VH_printVsConcat (C15): for a number produced by any built-in or operator, the text + splices
// into a string — on either side — is character for character what দেখাও prints.
func VH_printVsConcat(p int) {
	v, ok := producedValue(p)
	if !ok {
		verifReach("producer-failed")
		return
	}
	if !hvIsNum(v) {
		verifReach("not-a-number")
		return
	}
	in := NewInterpreter()
	env := environment.NewEnvironmentWithParent(in.globals)
	env.Define("v", v)
	utils.HadError, utils.HadRuntimeError = false, false
	verifClearEvents()
	in.eval(&ast.PrintStatement{Expression: ident("v", 4)}, env, false)
	verifAssert("print-writes-exactly-one-line", hvCountStdout() == 1 && hvCountStderr() == 0)
	if hvCountStdout() != 1 {
		return
	}
	printed := verifEventText(0)
	left := evaluateBinary(v, tok(token.PLUS, "+", 4), "")
	right := evaluateBinary("", tok(token.PLUS, "+", 4), v)
	verifAssert("bin-result-is-string", hvIsStr(left) && hvIsStr(right))
	if hvIsStr(left) && hvIsStr(right) {
		verifAssert("bin-string-result", hvStr(left)+"\n" == printed && hvStr(right)+"\n" == printed)
	}
}

// VH_printLong (C15): a printed text of n bytes followed by a pair NFC composes (e + U+0301, or
// the two parts of a Bangla vowel sign): however long the text and wherever the pair falls, the
// line written is the NFC form of the text and one newline — whether it is written in one piece
// or several.
func VH_printLong(n int) {
	tails := []string{"e\u0301", "\u0995\u09c7\u09be", "k\u09df"}
	tail := tails[verifChoice(len(tails))]
	text := strings.Repeat("x", n) + tail
	in := NewInterpreter()
	env := environment.NewEnvironmentWithParent(in.globals)
	which := verifChoice(2)
	if which == 0 {
		env.Define("v", text)
	} else {
		env.Define("v", []interface{}{text, 1.0})
	}
	utils.HadError, utils.HadRuntimeError = false, false
	verifClearEvents()
	in.eval(&ast.PrintStatement{Expression: ident("v", 2)}, env, false)
	out := ""
	for i := 0; i < verifNumEvents(); i++ {
		if verifEventKind(i) == 1 {
			out += verifEventText(i)
		}
	}
	verifAssert("print-no-diagnostic", hvCountStderr() == 0)
	verifAssert("printed-line-is-in-nfc", norm.NFC.String(out) == out)
	if which == 0 {
		verifAssert("printed-text-is-the-value-text-plus-newline", out == norm.NFC.String(text)+"\n")
	} else {
		verifAssert("nested-string-prints-as-its-characters", verifTextContainsInOrder(out, norm.NFC.String(text), "1"))
	}
}
