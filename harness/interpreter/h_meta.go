package interpreter

// C18 (b) at run time: numeric strings in either digit script convert to the same number.

import "github.com/ah-naf/borno/utils"

func otherScriptRune(r rune) rune {
	if r >= 48 && r <= 57 {
		return r - 48 + 0x9E6
	}
	if r >= 0x9E6 && r <= 0x9EF {
		return r - 0x9E6 + 48
	}
	return r
}

func VH_swapNum(n int) {
	a := hvText(n)
	b := make([]rune, n)
	for i := 0; i < n; i++ {
		b[i] = a[i]
		if verifNondetBool() {
			b[i] = otherScriptRune(a[i])
		}
	}
	utils.HadRuntimeError = false
	x, errx := toNumber(string(a))
	y, erry := toNumber(string(b))
	verifAssert("swap-number-same-failure", (errx == nil) == (erry == nil))
	if errx == nil {
		if erry == nil {
			verifAssert("swap-number-same-value", hvSameFloat(x, y))
		}
	}
	i1, e1 := toInt64(string(a))
	i2, e2 := toInt64(string(b))
	verifAssert("swap-integer-same-failure", (e1 == nil) == (e2 == nil))
	if e1 == nil {
		if e2 == nil {
			verifAssert("swap-integer-same-value", i1 == i2)
		}
	}
}
