package parser

// C01 / C08: the real Parse() on token sequences whose token types are symbolic, against a
// reference parser written from grammer.txt with the amendments the properties state
// (DESIGN A.1, E.2). Accepted sequences must give the reference tree; rejected ones must be
// diagnosed at the reference's first non-viable token.

import (
	"fmt"

	"github.com/ah-naf/borno/ast"
	"github.com/ah-naf/borno/lexer"
	"github.com/ah-naf/borno/token"
	"github.com/ah-naf/borno/utils"
)

// ---- reference parser ----

type refP struct {
	toks      []token.Token
	pos       int
	failed    bool
	errIdx    int
	targetErr bool // the error is an invalid assignment target (diagnosed at or right of its '=')
	open      bool // the input left the specified domain (trailing comma in an object literal, reserved Latin name "input")
}

func (r *refP) ty() token.TokenType { return r.toks[r.pos].Type }

func (r *refP) fail() {
	if !r.failed {
		r.failed = true
		r.errIdx = r.pos
	}
}

func (r *refP) is(t token.TokenType) bool {
	if r.failed {
		return false
	}
	return r.ty() == t
}

func (r *refP) eat(t token.TokenType) bool {
	if r.failed {
		return false
	}
	if r.ty() == t {
		if t != token.EOF {
			r.pos++
		}
		return true
	}
	r.fail()
	return false
}

func (r *refP) accept(t token.TokenType) bool {
	if r.failed {
		return false
	}
	if t != token.EOF && r.ty() == t {
		r.pos++
		return true
	}
	return false
}

var refReserved = []string{
	"\u0995\u09cd\u09b2\u0995", "\u09b2\u09c7\u09a8", "\u098f\u09a1", "\u09b0\u09bf\u09ae\u09c1\u09ad",
	"\u0995\u09bf_\u09b0\u09bf\u09ae\u09c1\u09ad", "\u0985\u09ac\u09cd\u099c\u09c7\u0995\u09cd\u099f_\u0995\u09bf",
	"\u0985\u09ac\u09cd\u099c\u09c7\u0995\u09cd\u099f_\u09ae\u09be\u09a8", "\u09aa\u09b0\u09ae\u09ae\u09be\u09a8",
	"\u09ac\u09b0\u09cd\u0997\u09ae\u09c2\u09b2", "\u0998\u09be\u09a4", "\u09b8\u09be\u0987\u09a8", "\u0995\u09b8\u09be\u0987\u09a8",
	"\u099f\u09cd\u09af\u09be\u09a8", "\u09b8\u09b0\u09cd\u09ac\u09a8\u09bf\u09ae\u09cd\u09a8", "\u09b8\u09b0\u09cd\u09ac\u09cb\u099a\u09cd\u099a",
	"\u09b0\u09be\u0989\u09a8\u09cd\u09a1", "\u0987\u09a8\u09aa\u09c1\u099f",
}

func isReservedName(s string) bool {
	for _, n := range refReserved {
		if n == s {
			return true
		}
	}
	return false
}

func (r *refP) program() []ast.Stmt {
	out := []ast.Stmt{}
	for !r.failed {
		if r.ty() == token.EOF {
			break
		}
		s := r.declaration()
		out = append(out, s)
	}
	return out
}

func (r *refP) declaredName() token.Token {
	t := r.toks[r.pos]
	if !r.eat(token.IDENTIFIER) {
		return t
	}
	if t.Lexeme == "input" {
		r.open = true
	}
	if isReservedName(t.Lexeme) {
		r.pos--
		r.fail()
	}
	return t
}

func (r *refP) declaration() ast.Stmt {
	if r.accept(token.FUN) {
		name := r.declaredName()
		r.eat(token.LEFT_PAREN)
		params := []token.Token{}
		if !r.is(token.RIGHT_PAREN) {
			for !r.failed {
				if len(params) >= 255 {
					r.fail()
					break
				}
				p := r.toks[r.pos]
				if !r.eat(token.IDENTIFIER) {
					break
				}
				params = append(params, p)
				if !r.accept(token.COMMA) {
					break
				}
			}
		}
		r.eat(token.RIGHT_PAREN)
		r.eat(token.LEFT_BRACE)
		body := r.block()
		return &ast.FunctionStmt{Name: name, Params: params, Body: body}
	}
	if r.accept(token.VAR) {
		return r.varDecl()
	}
	return r.statement()
}

func (r *refP) varDecl() ast.Stmt {
	var decls []ast.VarStmt
	for !r.failed {
		name := r.declaredName()
		var init ast.Expr
		if r.accept(token.EQUAL) {
			init = r.expression()
		}
		decls = append(decls, ast.VarStmt{Name: name, Initializer: init, Line: name.Line})
		if !r.accept(token.COMMA) {
			break
		}
	}
	r.eat(token.SEMICOLON)
	if len(decls) == 1 {
		return &decls[0]
	}
	return &ast.VarListStmt{Declarations: decls}
}

func (r *refP) block() []ast.Stmt {
	out := []ast.Stmt{}
	for !r.failed {
		if r.ty() == token.RIGHT_BRACE {
			break
		}
		if r.ty() == token.EOF {
			break
		}
		out = append(out, r.declaration())
	}
	r.eat(token.RIGHT_BRACE)
	return out
}

func (r *refP) statement() ast.Stmt {
	switch {
	case r.accept(token.IF):
		r.eat(token.LEFT_PAREN)
		c := r.expression()
		r.eat(token.RIGHT_PAREN)
		th := r.statement()
		var el ast.Stmt
		if r.accept(token.ELSE) {
			el = r.statement()
		}
		return &ast.IfStmt{Condition: c, ThenBranch: th, ElseBranch: el}
	case r.accept(token.WHILE):
		r.eat(token.LEFT_PAREN)
		c := r.expression()
		r.eat(token.RIGHT_PAREN)
		b := r.statement()
		return &ast.While{Condition: c, Body: b}
	case r.accept(token.FOR):
		r.eat(token.LEFT_PAREN)
		var init ast.Stmt
		if r.accept(token.SEMICOLON) {
		} else if r.accept(token.VAR) {
			init = r.varDecl()
		} else {
			init = r.exprStmt()
		}
		var cond ast.Expr
		if !r.is(token.SEMICOLON) {
			cond = r.expression()
		}
		r.eat(token.SEMICOLON)
		var inc ast.Expr
		if !r.is(token.RIGHT_PAREN) {
			inc = r.expression()
		}
		r.eat(token.RIGHT_PAREN)
		body := r.statement()
		if cond == nil {
			cond = &ast.Literal{Value: true}
		}
		return &ast.ForStmt{Initializer: init, Condition: cond, Increment: inc, Body: body}
	case r.accept(token.PRINT):
		e := r.expression()
		r.eat(token.SEMICOLON)
		return &ast.PrintStatement{Expression: e}
	case r.accept(token.RETURN):
		kw := r.toks[r.pos-1]
		var v ast.Expr
		if !r.is(token.SEMICOLON) {
			v = r.expression()
		}
		r.eat(token.SEMICOLON)
		return &ast.Return{Keyword: kw, Value: v}
	case r.accept(token.BREAK):
		r.eat(token.SEMICOLON)
		return &ast.BreakStmt{}
	case r.accept(token.CONTINUE):
		r.eat(token.SEMICOLON)
		return &ast.ContinueStmt{}
	case r.accept(token.LEFT_BRACE):
		return &ast.BlockStmt{Block: r.block()}
	}
	return r.exprStmt()
}

func (r *refP) exprStmt() ast.Stmt {
	e := r.expression()
	r.eat(token.SEMICOLON)
	return &ast.ExpressionStatement{Expression: e}
}

func (r *refP) expression() ast.Expr { return r.assignment() }

func (r *refP) assignment() ast.Expr {
	left := r.binary(1)
	if r.failed {
		return left
	}
	if r.ty() == token.EQUAL {
		eqIdx := r.pos
		eq := r.toks[r.pos]
		r.pos++
		switch t := left.(type) {
		case *ast.Identifier:
			v := r.assignment()
			return &ast.AssignmentStmt{Name: t.Name, Value: v, Line: eq.Line}
		case *ast.ArrayAccess:
			v := r.assignment()
			return &ast.ArrayAssignment{Array: t.Array, Index: t.Index, Value: v, Line: eq.Line}
		case *ast.PropertyAccess:
			v := r.assignment()
			return &ast.PropertyAssignment{Object: t.Object, Property: t.Property, Value: v, Line: eq.Line}
		}
		r.pos = eqIdx
		r.fail()
		r.targetErr = true
	}
	return left
}

// the ladder (A.1): level -> operator token types
func levelOf(t token.TokenType) int {
	switch t {
	case token.LOGICAL_OR:
		return 1
	case token.LOGICAL_AND:
		return 2
	case token.OR:
		return 3
	case token.XOR:
		return 4
	case token.AND:
		return 5
	case token.BANG_EQUAL, token.EQUAL_EQUAL:
		return 6
	case token.GREATER, token.GREATER_EQUAL, token.LESS, token.LESS_EQUAL:
		return 7
	case token.RIGHT_SHIFT, token.LEFT_SHIFT:
		return 8
	case token.MINUS, token.PLUS:
		return 9
	case token.SLASH, token.STAR, token.MODULO:
		return 10
	case token.POWER:
		return 11
	}
	return 0
}

// binary parses level `lvl` and everything tighter: left-associative at every level.
func (r *refP) binary(lvl int) ast.Expr {
	if lvl > 11 {
		return r.unary()
	}
	left := r.binary(lvl + 1)
	for !r.failed {
		if levelOf(r.ty()) != lvl {
			break
		}
		op := r.toks[r.pos]
		r.pos++
		right := r.binary(lvl + 1)
		if lvl <= 2 {
			left = &ast.Logical{Left: left, Operator: op, Right: right}
		} else {
			left = &ast.Binary{Left: left, Operator: op, Right: right, Line: op.Line}
		}
	}
	return left
}

func (r *refP) unary() ast.Expr {
	if r.failed {
		return nil
	}
	switch r.ty() {
	case token.BANG, token.MINUS, token.NOT:
		op := r.toks[r.pos]
		r.pos++
		return &ast.Unary{Operator: op, Right: r.unary(), Line: op.Line}
	}
	return r.call()
}

func (r *refP) call() ast.Expr {
	e := r.primary()
	for !r.failed {
		if r.accept(token.LEFT_PAREN) {
			args := []ast.Expr{}
			if !r.is(token.RIGHT_PAREN) {
				for !r.failed {
					args = append(args, r.expression())
					if !r.accept(token.COMMA) {
						break
					}
				}
			}
			paren := r.toks[r.pos]
			r.eat(token.RIGHT_PAREN)
			e = &ast.Call{Callee: e, Paren: paren, Arguments: args}
		} else if r.accept(token.LEFT_BRACKET) {
			idx := r.expression()
			br := r.toks[r.pos]
			r.eat(token.RIGHT_BRACKET)
			e = &ast.ArrayAccess{Array: e, Index: idx, Line: br.Line}
		} else if r.accept(token.DOT) {
			name := r.toks[r.pos]
			r.eat(token.IDENTIFIER)
			e = &ast.PropertyAccess{Object: e, Property: name, Line: name.Line}
		} else {
			break
		}
	}
	return e
}

func (r *refP) primary() ast.Expr {
	if r.failed {
		return nil
	}
	t := r.toks[r.pos]
	switch t.Type {
	case token.FALSE:
		r.pos++
		return &ast.Literal{Value: false, Line: t.Line}
	case token.TRUE:
		r.pos++
		return &ast.Literal{Value: true, Line: t.Line}
	case token.NIL:
		r.pos++
		return &ast.Literal{Value: nil, Line: t.Line}
	case token.NUMBER, token.STRING:
		r.pos++
		return &ast.Literal{Value: t.Literal, Line: t.Line}
	case token.IDENTIFIER:
		r.pos++
		return &ast.Identifier{Name: t, Line: t.Line}
	case token.LEFT_PAREN:
		r.pos++
		e := r.expression()
		cl := r.toks[r.pos]
		r.eat(token.RIGHT_PAREN)
		return &ast.Grouping{Expression: e, Line: cl.Line}
	case token.LEFT_BRACKET:
		r.pos++
		els := []ast.Expr{}
		if !r.is(token.RIGHT_BRACKET) {
			for !r.failed {
				els = append(els, r.expression())
				if !r.accept(token.COMMA) {
					break
				}
			}
		}
		r.eat(token.RIGHT_BRACKET)
		return &ast.ArrayLiteral{Elements: els}
	case token.LEFT_BRACE:
		r.pos++
		props := map[string]ast.Expr{}
		if !r.is(token.RIGHT_BRACE) {
			for !r.failed {
				name := r.toks[r.pos]
				if !r.eat(token.IDENTIFIER) {
					break
				}
				r.eat(token.COLON)
				v := r.expression()
				if !r.failed {
					props[name.Lexeme] = v
				}
				if !r.accept(token.COMMA) {
					break
				}
				if r.is(token.RIGHT_BRACE) {
					r.open = true // trailing comma: outside the specified domain
				}
			}
		}
		r.eat(token.RIGHT_BRACE)
		return &ast.ObjectLiteral{Properties: props}
	}
	r.fail()
	return nil
}

// ---- structural tree equality (through the exported fields, not String()) ----

func sameTok(a, b token.Token) bool {
	return a.Type == b.Type && a.Lexeme == b.Lexeme && a.Line == b.Line
}

func sameExpr(a, b ast.Expr) bool {
	if a == nil {
		return b == nil
	}
	if b == nil {
		return false
	}
	switch x := a.(type) {
	case *ast.Binary:
		y, ok := b.(*ast.Binary)
		return ok && sameTok(x.Operator, y.Operator) && x.Line == y.Line && sameExpr(x.Left, y.Left) && sameExpr(x.Right, y.Right)
	case *ast.Logical:
		y, ok := b.(*ast.Logical)
		return ok && sameTok(x.Operator, y.Operator) && sameExpr(x.Left, y.Left) && sameExpr(x.Right, y.Right)
	case *ast.Unary:
		y, ok := b.(*ast.Unary)
		return ok && sameTok(x.Operator, y.Operator) && x.Line == y.Line && sameExpr(x.Right, y.Right)
	case *ast.Grouping:
		y, ok := b.(*ast.Grouping)
		return ok && sameExpr(x.Expression, y.Expression)
	case *ast.Literal:
		y, ok := b.(*ast.Literal)
		return ok && x.Line == y.Line && sameLiteral(x.Value, y.Value)
	case *ast.Identifier:
		y, ok := b.(*ast.Identifier)
		return ok && sameTok(x.Name, y.Name) && x.Line == y.Line
	case *ast.Call:
		y, ok := b.(*ast.Call)
		if !ok || !sameTok(x.Paren, y.Paren) || !sameExpr(x.Callee, y.Callee) || len(x.Arguments) != len(y.Arguments) {
			return false
		}
		for i := range x.Arguments {
			if !sameExpr(x.Arguments[i], y.Arguments[i]) {
				return false
			}
		}
		return true
	case *ast.ArrayLiteral:
		y, ok := b.(*ast.ArrayLiteral)
		if !ok || len(x.Elements) != len(y.Elements) {
			return false
		}
		for i := range x.Elements {
			if !sameExpr(x.Elements[i], y.Elements[i]) {
				return false
			}
		}
		return true
	case *ast.ArrayAccess:
		y, ok := b.(*ast.ArrayAccess)
		return ok && x.Line == y.Line && sameExpr(x.Array, y.Array) && sameExpr(x.Index, y.Index)
	case *ast.ObjectLiteral:
		y, ok := b.(*ast.ObjectLiteral)
		if !ok || len(x.Properties) != len(y.Properties) {
			return false
		}
		for k, v := range x.Properties {
			w, has := y.Properties[k]
			if !has || !sameExpr(v, w) {
				return false
			}
		}
		return true
	case *ast.PropertyAccess:
		y, ok := b.(*ast.PropertyAccess)
		return ok && sameTok(x.Property, y.Property) && x.Line == y.Line && sameExpr(x.Object, y.Object)
	case *ast.AssignmentStmt:
		y, ok := b.(*ast.AssignmentStmt)
		return ok && sameTok(x.Name, y.Name) && x.Line == y.Line && sameExpr(x.Value, y.Value)
	case *ast.ArrayAssignment:
		y, ok := b.(*ast.ArrayAssignment)
		return ok && x.Line == y.Line && sameExpr(x.Array, y.Array) && sameExpr(x.Index, y.Index) && sameExpr(x.Value, y.Value)
	case *ast.PropertyAssignment:
		y, ok := b.(*ast.PropertyAssignment)
		return ok && x.Line == y.Line && sameTok(x.Property, y.Property) && sameExpr(x.Object, y.Object) && sameExpr(x.Value, y.Value)
	}
	return sameStmt(a, b)
}

func sameLiteral(a, b interface{}) bool {
	switch x := a.(type) {
	case nil:
		return b == nil
	case bool:
		y, ok := b.(bool)
		return ok && x == y
	case float64:
		y, ok := b.(float64)
		return ok && x == y
	case string:
		y, ok := b.(string)
		return ok && x == y
	case []rune:
		y, ok := b.([]rune)
		return ok && string(x) == string(y)
	}
	return false
}

func sameStmts(a, b []ast.Stmt) bool {
	if len(a) != len(b) {
		return false
	}
	for i := range a {
		if !sameStmt(a[i], b[i]) {
			return false
		}
	}
	return true
}

func sameStmt(a, b ast.Stmt) bool {
	if a == nil {
		return b == nil
	}
	if b == nil {
		return false
	}
	switch x := a.(type) {
	case *ast.ExpressionStatement:
		y, ok := b.(*ast.ExpressionStatement)
		return ok && sameExpr(x.Expression, y.Expression)
	case *ast.PrintStatement:
		y, ok := b.(*ast.PrintStatement)
		return ok && sameExpr(x.Expression, y.Expression)
	case *ast.VarStmt:
		y, ok := b.(*ast.VarStmt)
		return ok && sameTok(x.Name, y.Name) && x.Line == y.Line && sameExpr(x.Initializer, y.Initializer)
	case *ast.VarListStmt:
		y, ok := b.(*ast.VarListStmt)
		if !ok || len(x.Declarations) != len(y.Declarations) {
			return false
		}
		for i := range x.Declarations {
			if !sameStmt(&x.Declarations[i], &y.Declarations[i]) {
				return false
			}
		}
		return true
	case *ast.BlockStmt:
		y, ok := b.(*ast.BlockStmt)
		return ok && sameStmts(x.Block, y.Block)
	case *ast.IfStmt:
		y, ok := b.(*ast.IfStmt)
		return ok && sameExpr(x.Condition, y.Condition) && sameStmt(x.ThenBranch, y.ThenBranch) && sameStmt(x.ElseBranch, y.ElseBranch)
	case *ast.While:
		y, ok := b.(*ast.While)
		return ok && sameExpr(x.Condition, y.Condition) && sameStmt(x.Body, y.Body)
	case *ast.ForStmt:
		y, ok := b.(*ast.ForStmt)
		return ok && sameExpr(x.Condition, y.Condition) && sameExpr(x.Increment, y.Increment) && sameStmt(x.Initializer, y.Initializer) && sameStmt(x.Body, y.Body)
	case *ast.BreakStmt:
		_, ok := b.(*ast.BreakStmt)
		return ok
	case *ast.ContinueStmt:
		_, ok := b.(*ast.ContinueStmt)
		return ok
	case *ast.Return:
		y, ok := b.(*ast.Return)
		return ok && sameTok(x.Keyword, y.Keyword) && sameExpr(x.Value, y.Value)
	case *ast.FunctionStmt:
		y, ok := b.(*ast.FunctionStmt)
		if !ok || !sameTok(x.Name, y.Name) || len(x.Params) != len(y.Params) {
			return false
		}
		for i := range x.Params {
			if !sameTok(x.Params[i], y.Params[i]) {
				return false
			}
		}
		return sameStmts(x.Body, y.Body)
	}
	return false
}

// ---- harness ----

// mkTok: token i of a sequence; every token has the unique lexeme t<i> so that the token a
// diagnostic names can be read back from its text. All tokens are on line 1 (the parser has
// an undocumented line-break rule inside declarations, which is outside the domain); the
// Line fields of the trees are still compared.
func mkTok(i int, ty token.TokenType) token.Token {
	t := token.Token{Type: ty, Lexeme: fmt.Sprintf("t%d", i), Line: 1}
	if ty == token.NUMBER {
		t.Literal = float64(i)
	}
	if ty == token.STRING {
		t.Literal = []rune(fmt.Sprintf("s%d", i))
	}
	return t
}

func firstDiagnostic() (string, bool) {
	for i := 0; i < verifNumEvents(); i++ {
		if verifEventKind(i) == 2 {
			return verifEventText(i), true
		}
	}
	return "", false
}

// diagnosedIndex: the index of the token named by a diagnostic text (n = index of EOF).
func diagnosedIndex(text string, toks []token.Token) int {
	n := len(toks) - 1
	if verifTextContainsInOrder(text, " at end:") {
		return n
	}
	for i := 0; i < n; i++ {
		if verifTextContainsInOrder(text, fmt.Sprintf(" at '%s':", toks[i].Lexeme)) {
			return i
		}
	}
	return -1
}

func checkAgainstReference(toks []token.Token) {
	utils.HadError = false
	verifClearEvents()
	p := NewParser(toks)
	got, err := p.Parse()
	text, diagnosed := firstDiagnostic()
	verifAssert("diagnostic-iff-flag", diagnosed == utils.HadError)
	verifAssert("stdout-untouched", countStdout() == 0)
	r := &refP{toks: toks}
	want := r.program()
	if r.open {
		verifReach("outside-specified-domain")
		return
	}
	if r.failed {
		verifReach("rejected")
		verifAssert("ungrammatical-sequence-is-rejected", utils.HadError)
		if diagnosed {
			d := diagnosedIndex(text, toks)
			verifAssert("diagnostic-names-a-token-of-the-text", d >= 0)
			if r.targetErr {
				verifAssert("bad-assignment-target-diagnosed-at-or-after-its-equals", d >= r.errIdx)
			} else {
				verifAssert("first-diagnostic-at-the-first-non-viable-token", d == r.errIdx)
			}
		}
		return
	}
	verifReach("accepted")
	verifAssert("grammatical-sequence-is-accepted", !utils.HadError && err == nil)
	if err == nil {
		if !utils.HadError {
			verifAssert("tree-is-the-reference-tree", sameStmts(got, want))
		}
	}
}

func countStdout() int {
	n := 0
	for i := 0; i < verifNumEvents(); i++ {
		if verifEventKind(i) == 1 {
			n++
		}
	}
	return n
}

func anyType() token.TokenType {
	return token.TokenType(verifNondetInt(0, int(token.EOF)-1))
}

// VH_free: n tokens of arbitrary type, then EOF.
func VH_free(n int) {
	toks := make([]token.Token, 0, n+1)
	for i := 0; i < n; i++ {
		toks = append(toks, mkTok(i, anyType()))
	}
	toks = append(toks, token.Token{Type: token.EOF, Lexeme: "", Line: 1})
	checkAgainstReference(toks)
}

// VH_holes: operand h operand h operand … ; with `holes` tokens of arbitrary type between
// identifier operands (every pair/triple of operator levels, and every non-operator).
func VH_holes(holes int) {
	toks := []token.Token{}
	k := 0
	for i := 0; i <= holes; i++ {
		toks = append(toks, mkTok(k, token.IDENTIFIER))
		k++
		if i < holes {
			toks = append(toks, mkTok(k, anyType()))
			k++
		}
	}
	toks = append(toks, mkTok(k, token.SEMICOLON))
	toks = append(toks, token.Token{Type: token.EOF, Lexeme: "", Line: 1})
	checkAgainstReference(toks)
}

// VH_template: fixed shapes with one or two arbitrary tokens at interesting positions.
func VH_template(which int) {
	T := func(tys ...int) []token.Token {
		out := []token.Token{}
		for i, t := range tys {
			ty := token.TokenType(t)
			if t < 0 {
				ty = anyType()
			}
			out = append(out, mkTok(i, ty))
		}
		return append(out, token.Token{Type: token.EOF, Lexeme: "", Line: 1})
	}
	I, S := int(token.IDENTIFIER), int(token.SEMICOLON)
	LP, RP := int(token.LEFT_PAREN), int(token.RIGHT_PAREN)
	var toks []token.Token
	switch which {
	case 0: // prefix hole, binary hole:  h a h b ;
		toks = T(-1, I, -1, I, S)
	case 1: // suffix chain: a h h b h ;
		toks = T(I, -1, -1, I, -1, S)
	case 2: // parenthesised operand: ( a h b ) h c ;
		toks = T(LP, I, -1, I, RP, -1, I, S)
	case 3: // dangling else: if ( a ) if ( b ) c ; h d ;
		toks = T(int(token.IF), LP, I, RP, int(token.IF), LP, I, RP, I, S, -1, I, S)
	case 4: // assignment chains: a h b h c ;  with '=' allowed
		toks = T(I, int(token.EQUAL), I, -1, I, -1, I, S)
	case 5: // statement starters: h ( a ) b ;
		toks = T(-1, LP, I, RP, I, S)
	case 6: // declaration: var a h b h c ;
		toks = T(int(token.VAR), I, -1, I, -1, I, S)
	case 7: // function: fun f ( a h b ) { h }
		toks = T(int(token.FUN), I, LP, I, -1, I, RP, int(token.LEFT_BRACE), -1, int(token.RIGHT_BRACE))
	case 8: // for header: for ( h ; a ; b ) c ;
		toks = T(int(token.FOR), LP, -1, S, I, S, I, RP, I, S)
	case 9: // literals: [ a h b ] ;   and  ( { k : a h } ) ;
		toks = T(int(token.LEFT_BRACKET), I, -1, I, int(token.RIGHT_BRACKET), -1, S)
	case 10:
		toks = T(LP, int(token.LEFT_BRACE), I, int(token.COLON), I, -1, I, -1, RP, S)
	case 11: // unary / power interplay: h a ** h b ;
		toks = T(-1, I, int(token.POWER), -1, I, S)
	case 12: // return / break / continue:  h h ;
		toks = T(-1, -1, S)
	case 13: // block:  { a ; h } h
		toks = T(int(token.LEFT_BRACE), I, S, -1, int(token.RIGHT_BRACE), -1)
	case 14: // statement position after else:  if ( a ) b ; else h x h y ;
		toks = T(int(token.IF), LP, I, RP, I, S, int(token.ELSE), -1, I, -1, I, S)
	case 15: // statement position after a while header:  while ( a ) h x h y ;
		toks = T(int(token.WHILE), LP, I, RP, -1, I, -1, I, S)
	case 16: // statement position after a for header:  for ( ; ; ) h x h y ;
		toks = T(int(token.FOR), LP, S, S, RP, -1, I, -1, I, S)
	case 17: // then-branch position:  if ( a ) h x h y ;
		toks = T(int(token.IF), LP, I, RP, -1, I, -1, I, S)
	case 21: // assignment chain through a property target:  a . p h b h c ;  ('=' among the holes)
		toks = T(I, int(token.DOT), I, -1, I, -1, I, S)
	case 22: // … and through an element target, with the property target in the middle:  a h b . p h c [ d ] h e ;
		toks = T(I, -1, I, int(token.DOT), I, -1, I, int(token.LEFT_BRACKET), I, int(token.RIGHT_BRACKET), -1, I, S)
	case 23: // stacked prefix operators, then a binary hole:  h h a h b ;
		toks = T(-1, -1, I, -1, I, S)
	case 19: // two ifs, two else positions:  if ( a ) if ( b ) c ; h d ; h e ;
		toks = T(int(token.IF), LP, I, RP, int(token.IF), LP, I, RP, I, S, -1, I, S, -1, I, S)
	case 20: // else-if ladder:  if ( a ) b ; else if ( c ) d ; h e ; h f ;
		toks = T(int(token.IF), LP, I, RP, I, S, int(token.ELSE), int(token.IF), LP, I, RP, I, S, -1, I, S, -1, I, S)
	default: // declaration position inside a function body:  fun f ( ) { h x h y ; }
		toks = T(int(token.FUN), I, LP, RP, int(token.LEFT_BRACE), -1, I, -1, I, S, int(token.RIGHT_BRACE))
	}
	checkAgainstReference(toks)
}

// VH_reserved: declaring a built-in's name as a variable or function is rejected — whatever
// follows the name (nothing, a scalar / array / object initialiser) and wherever the name
// sits in a comma-separated declaration.
func VH_reserved() {
	which := verifChoice(len(refReserved))
	name := refReserved[which]
	shape := verifChoice(9)
	res := token.Token{Type: token.IDENTIFIER, Lexeme: name, Line: 1}
	LB, RB := token.LEFT_BRACKET, token.RIGHT_BRACKET
	var toks []token.Token
	switch shape {
	case 0: // var NAME ;
		toks = []token.Token{mkTok(0, token.VAR), res, mkTok(2, token.SEMICOLON)}
	case 1: // fun NAME ( ) { }
		toks = []token.Token{mkTok(0, token.FUN), res, mkTok(2, token.LEFT_PAREN), mkTok(3, token.RIGHT_PAREN), mkTok(4, token.LEFT_BRACE), mkTok(5, token.RIGHT_BRACE)}
	case 2: // var NAME = 5 ;
		toks = []token.Token{mkTok(0, token.VAR), res, mkTok(2, token.EQUAL), mkTok(3, token.NUMBER), mkTok(4, token.SEMICOLON)}
	case 3: // var NAME = [ 1 ] ;
		toks = []token.Token{mkTok(0, token.VAR), res, mkTok(2, token.EQUAL), mkTok(3, LB), mkTok(4, token.NUMBER), mkTok(5, RB), mkTok(6, token.SEMICOLON)}
	case 4: // var NAME = { k : 1 } ;
		toks = []token.Token{mkTok(0, token.VAR), res, mkTok(2, token.EQUAL), mkTok(3, token.LEFT_BRACE), mkTok(4, token.IDENTIFIER), mkTok(5, token.COLON), mkTok(6, token.NUMBER), mkTok(7, token.RIGHT_BRACE), mkTok(8, token.SEMICOLON)}
	case 5: // var a = 1 , NAME = [ ] ;
		toks = []token.Token{mkTok(0, token.VAR), mkTok(1, token.IDENTIFIER), mkTok(2, token.EQUAL), mkTok(3, token.NUMBER), mkTok(4, token.COMMA), res, mkTok(6, token.EQUAL), mkTok(7, LB), mkTok(8, RB), mkTok(9, token.SEMICOLON)}
	case 7: // fun NAME ( a ) { b h }  — a second fault later in the same declaration: the name is still the first
		toks = []token.Token{mkTok(0, token.FUN), res, mkTok(2, token.LEFT_PAREN), mkTok(3, token.IDENTIFIER), mkTok(4, token.RIGHT_PAREN), mkTok(5, token.LEFT_BRACE), mkTok(6, token.IDENTIFIER), mkTok(7, anyType()), mkTok(8, token.RIGHT_BRACE)}
	case 8: // fun NAME ( a h b ) { }
		toks = []token.Token{mkTok(0, token.FUN), res, mkTok(2, token.LEFT_PAREN), mkTok(3, token.IDENTIFIER), mkTok(4, anyType()), mkTok(5, token.IDENTIFIER), mkTok(6, token.RIGHT_PAREN), mkTok(7, token.LEFT_BRACE), mkTok(8, token.RIGHT_BRACE)}
	default: // for ( var NAME = { } ; ; ) a ;
		toks = []token.Token{mkTok(0, token.FOR), mkTok(1, token.LEFT_PAREN), mkTok(2, token.VAR), res, mkTok(4, token.EQUAL), mkTok(5, token.LEFT_BRACE), mkTok(6, token.RIGHT_BRACE), mkTok(7, token.SEMICOLON), mkTok(8, token.SEMICOLON), mkTok(9, token.RIGHT_PAREN), mkTok(10, token.IDENTIFIER), mkTok(11, token.SEMICOLON)}
	}
	toks = append(toks, token.Token{Type: token.EOF, Lexeme: "", Line: 1})
	checkAgainstReference(toks)
}

// ---- systematic single-token mutation of valid programs (C08: "every valid-program prefix
// extended by every possible next token") ----

var mutSources = []string{
	"a = b + c * d;",
	"\u09af\u09a6\u09bf (a) b; \u09a8\u09be\u09b9\u09df c;",
	"\u09af\u09a6\u09bf (a) { b; } \u09a8\u09be\u09b9\u09df \u09af\u09a6\u09bf (c) { d; } \u09a8\u09be\u09b9\u09df { e; }",
	"\u09af\u09a4\u0995\u09cd\u09b7\u09a3 (a < b) { a = a + 1; \u09a5\u09be\u09ae\u09cb; }",
	"\u09ab\u09b0 (\u09a7\u09b0\u09bf i = 0; i < n; i = i + 1) \u09a6\u09c7\u0996\u09be\u0993 i;",
	"\u09ab\u09b0 (;;) { \u099a\u09be\u09b2\u09bf\u09df\u09c7_\u09af\u09be\u0993; }",
	"\u09ab\u09be\u0982\u09b6\u09a8 f(a, b) { \u09ab\u09c7\u09b0\u09a4 a; }",
	"\u09a7\u09b0\u09bf x = 1, y;",
	"\u09a6\u09c7\u0996\u09be\u0993 f(a, b)[0].k;",
	"x = [1, [2], {k: 3, j: 4}];",
	"a.b.c = !-~d ** e;",
	"\u09ab\u09c7\u09b0\u09a4;",
	"{ \u09a7\u09b0\u09bf a = 1; { a; } }",
	"a || b && c == d != e <= f << g;",
}

func lexForMutation(src string) []token.Token {
	utils.HadError = false
	toks := lexer.NewScanner([]rune(src)).ScanTokens()
	out := make([]token.Token, len(toks))
	for i, t := range toks {
		out[i] = t
		if t.Type != token.EOF {
			out[i].Lexeme = fmt.Sprintf("t%d", i)
		}
		out[i].Line = 1
	}
	verifClearEvents()
	utils.HadError = false
	return out
}

// VH_mutate: valid program number prog with the token at one position (chosen by forking)
// replaced by a token of arbitrary type (mode 0), with an arbitrary token inserted there
// (mode 1), or with that token deleted (mode 2).
func VH_mutate(prog int, mode int) {
	toks := lexForMutation(mutSources[prog])
	n := len(toks) - 1
	pos := verifChoice(n)
	var mutated []token.Token
	switch mode {
	case 0:
		mutated = append(mutated, toks[:pos]...)
		mutated = append(mutated, mkTok(pos, anyType()))
		mutated = append(mutated, toks[pos+1:]...)
	case 1:
		mutated = append(mutated, toks[:pos]...)
		h := mkTok(100+pos, anyType())
		h.Lexeme = fmt.Sprintf("ins%d", pos)
		mutated = append(mutated, h)
		mutated = append(mutated, toks[pos:]...)
	default:
		mutated = append(mutated, toks[:pos]...)
		mutated = append(mutated, toks[pos+1:]...)
	}
	checkAgainstReference(mutated)
}

// VH_long (C08): long lists around the one numeric limit the grammar has. kind 0: a call with n
// arguments (no limit: the grammar's argument list is unbounded, and the variadic built-ins take
// any number); kind 1: a function declaration with n parameters (accepted iff n <= 255); kind 2:
// an array literal with n elements (no limit). The last list element is a token of arbitrary type
// and so is the token after the list, so the accept/reject boundary and the diagnostic position
// are decided for every continuation at that length.
func VH_long(kind int, n int) {
	toks := []token.Token{}
	k := 0
	add := func(ty token.TokenType) {
		toks = append(toks, mkTok(k, ty))
		k++
	}
	switch kind {
	case 0:
		add(token.IDENTIFIER)
		add(token.LEFT_PAREN)
	case 1:
		add(token.FUN)
		add(token.IDENTIFIER)
		add(token.LEFT_PAREN)
	default:
		add(token.LEFT_BRACKET)
	}
	for i := 0; i < n; i++ {
		if i > 0 {
			add(token.COMMA)
		}
		if i == n-1 {
			add(anyType())
		} else {
			add(token.IDENTIFIER)
		}
	}
	add(anyType())
	switch kind {
	case 0:
		add(token.SEMICOLON)
	case 1:
		add(token.LEFT_BRACE)
		add(token.RIGHT_BRACE)
	default:
		add(token.SEMICOLON)
	}
	toks = append(toks, token.Token{Type: token.EOF, Lexeme: "", Line: 1})
	checkAgainstReference(toks)
}

// infixTypes: the binary and logical operators of the ladder (every level has at least one).
var infixTypes = []token.TokenType{
	token.LOGICAL_OR, token.LOGICAL_AND, token.OR, token.XOR, token.AND,
	token.EQUAL_EQUAL, token.BANG_EQUAL, token.GREATER, token.GREATER_EQUAL, token.LESS, token.LESS_EQUAL,
	token.LEFT_SHIFT, token.RIGHT_SHIFT, token.PLUS, token.MINUS, token.STAR, token.SLASH, token.MODULO, token.POWER,
}

// VH_ops: operand (op operand)^k ; where every op is an arbitrary infix operator of the ladder
// — every ordered k-tuple of levels (k = 3: low-high-middle and the other 6 858 shapes), which
// the all-token-types holes reach only in the thorough tier.
func VH_ops(k int) {
	toks := []token.Token{}
	n := 0
	for i := 0; i <= k; i++ {
		toks = append(toks, mkTok(n, token.IDENTIFIER))
		n++
		if i < k {
			ty := anyType()
			ok := false
			for _, t := range infixTypes {
				if ty == t {
					ok = true
				}
			}
			verifAssume(ok)
			toks = append(toks, mkTok(n, ty))
			n++
		}
	}
	toks = append(toks, mkTok(n, token.SEMICOLON))
	toks = append(toks, token.Token{Type: token.EOF, Lexeme: "", Line: 1})
	checkAgainstReference(toks)
}
