package parser

// Translator validation for the parser: concrete sources (shapes of the repo's parser tests)
// lexed by the real lexer and parsed by the real Parse(), from SSA and natively; the String()
// renderings of all statements, the error flag and the diagnostics must be identical.

import (
	"fmt"

	"github.com/ah-naf/borno/ast"
	"github.com/ah-naf/borno/lexer"
	"github.com/ah-naf/borno/utils"
)

var verifParserSources = []string{
	"1 + 2 * 3 - 4 / 5 % 6 ** 7;",
	"a = b = c || d && e | f ^ g & h == i != j < k <= l > m >= n << o >> p;",
	"!-~x; f(1, 2)(3)[4].k = [1, [2], {}];",
	"\u09a7\u09b0\u09bf x = 1, y = 2;",
	"\u09af\u09a6\u09bf (a) \u09af\u09a6\u09bf (b) c; \u09a8\u09be\u09b9\u09df d;",
	"\u09ab\u09b0 (\u09a7\u09b0\u09bf i = 0; i < 3; i = i + 1) { \u09a6\u09c7\u0996\u09be\u0993 i; \u09a5\u09be\u09ae\u09cb; }",
	"\u09ab\u09b0 (;;) \u099a\u09be\u09b2\u09bf\u09df\u09c7_\u09af\u09be\u0993;",
	"\u09ab\u09be\u0982\u09b6\u09a8 f(a, b) { \u09ab\u09c7\u09b0\u09a4 a + b; } \u09af\u09a4\u0995\u09cd\u09b7\u09a3 (\u09b8\u09a4\u09cd\u09af) { f(1, 2); }",
	"(1 + 2;",
	"1 = 2;",
	"\u09a7\u09b0\u09bf \u09b2\u09c7\u09a8 = 1;",
	"{ a; b; ",
	"({ k: 1, j: [2, 3] }).k;",
	"\u09a6\u09c7\u0996\u09be\u0993 \"s\" + nil;",
}

func VH_selftest() {
	for _, src := range verifParserSources {
		utils.HadError = false
		verifClearEvents()
		toks := lexer.NewScanner([]rune(src)).ScanTokens()
		stmts, err := NewParser(toks).Parse()
		verifRecord(fmt.Sprintf("n=%d err=%v flag=%v", len(stmts), err != nil, utils.HadError))
		for _, s := range stmts {
			if _, isVar := s.(*ast.VarStmt); isVar {
				continue // VarStmt.String formats a possibly nil initialiser with %v
			}
			verifRecord(s.String())
		}
		for i := 0; i < verifNumEvents(); i++ {
			verifRecord(fmt.Sprintf("%d:%s", verifEventKind(i), verifEventText(i)))
		}
	}
}
