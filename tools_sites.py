#!/usr/bin/env python3
# Collects, from the evidence files of a clean-tree run, which assertion sites each job
# reached, into harness/expected_sites.json (the vacuity reference). Merge mode: sites are
# added, never removed, so quick and thorough runs can both contribute.
import json, glob, os
path = '/verif/harness/expected_sites.json'
exp = json.load(open(path)) if os.path.exists(path) else {}
for f in sorted(glob.glob('/verif/evidence/C*.json')):
    e = json.load(open(f))
    for j in e['coverage'].get('jobs', []):
        ids = sorted(j.get('assertions', {}).keys())
        cur = set(exp.get(j['job'], []))
        exp[j['job']] = sorted(cur | set(ids))
json.dump(exp, open(path, 'w'), indent=0, sort_keys=True)
print('jobs:', len(exp), 'sites:', sum(len(v) for v in exp.values()))
