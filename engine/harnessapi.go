package main

import (
	"fmt"
	"go/types"
	"os"
	"path/filepath"
	"strings"
	"unicode"

	"golang.org/x/tools/go/ssa"
)

func isLetterRune(r rune) bool { return unicode.IsLetter(r) }
func isMarkRune(r rune) bool   { return unicode.IsMark(r) }

type procModel struct {
	args       []StrV
	stdinLines int
	stdinNL    bool // last line ends with a newline
	fileOK     bool
	fileDir    bool // the script path names a directory (exists, cannot be read as a file)
	fileText   StrV
	catchDepth int
	lineText   []StrV
	stdinMode  int // 0: not read yet, 1: by lines, 2: by bytes (a Scanner with its own split function)
}

func (w *Worker) harnessIntrinsic(st *State, f *Frame, x ssa.Value, name string, args []Value) {
	set := func(v Value) {
		if x != nil {
			f.env[x] = v
		}
	}
	intArg := func(i int) int64 {
		v, ok := args[i].(Term).intVal()
		if !ok {
			panic(engineErr(name + ": argument must be concrete"))
		}
		return v
	}
	switch name {
	case "verifNondetBool":
		set(w.nondet(st, "bool", SBool))
	case "verifNondetInt":
		lo, hi := args[0].(Term), args[1].(Term)
		t := w.nondet(st, "int", SBV64)
		st.assume(bvCmp("bvsle", lo, t))
		st.assume(bvCmp("bvsle", t, hi))
		set(t)
	case "verifNondetInt64":
		set(w.nondet(st, "int64", SBV64))
	case "verifNondetFloat":
		set(w.nondet(st, "float", SFP))
	case "verifNondetRune":
		c := w.nondet(st, "rune", SBV32)
		st.assume(validRune(c))
		set(c)
	case "verifChoice":
		n := intArg(0)
		if n <= 0 {
			w.endPath("infeasible")
		}
		for k := int64(1); k < n; k++ {
			o := st.clone()
			o.nondets = append(o.nondets, NondetRec{Kind: "choice", Val: k})
			if x != nil {
				o.top().env[x] = mkBV(uint64(k), 64)
			}
			w.push(o)
		}
		st.nondets = append(st.nondets, NondetRec{Kind: "choice", Val: 0})
		set(mkBV(0, 64))
	case "verifSelect":
		k := args[0].(Term)
		vals := st.sliceElems(args[1].(SliceV))
		if len(vals) == 0 {
			panic(engineErr("verifSelect without alternatives"))
		}
		st.assume(bvCmp("bvsge", k, mkBV(0, 64)))
		st.assume(bvCmp("bvslt", k, mkBV(uint64(len(vals)), 64)))
		acc := vals[len(vals)-1]
		for i := len(vals) - 2; i >= 0; i-- {
			m, ok := iteValue(mkEq(k, mkBV(uint64(i), 64)), vals[i], acc)
			if !ok {
				panic(engineErr("verifSelect: alternatives cannot be merged"))
			}
			acc = m
		}
		set(acc)
	case "verifAssume":
		c := args[0].(Term)
		if can, _ := w.branch(st, c); !can {
			w.job.mu.Lock()
			w.job.Reached["assume-cut"]++
			w.job.mu.Unlock()
			w.endPath("assume")
		}
		st.assume(c)
	case "verifAssert":
		id, ok := constString(args[0])
		if !ok {
			panic(engineErr("verifAssert id must be constant"))
		}
		w.assert(st, id, args[1].(Term))
	case "verifOption":
		id, _ := constString(args[0])
		if st.opts == nil {
			st.opts = map[string]bool{}
		}
		st.opts[id] = true
	case "verifReach":
		id, _ := constString(args[0])
		w.job.mu.Lock()
		w.job.Reached[id]++
		w.job.mu.Unlock()
	case "verifRecord":
		txt, ok := constString(args[0])
		if !ok {
			panic(engineErr("verifRecord of a symbolic string"))
		}
		w.job.mu.Lock()
		w.job.Records = append(w.job.Records, strings.ReplaceAll(txt, "\n", "\\n"))
		w.job.mu.Unlock()
	case "verifDebug":
		if gCfg.Verbose {
			var parts []string
			for _, v := range st.sliceElems(args[0].(SliceV)) {
				parts = append(parts, debugValue(st, v))
			}
			fmt.Fprintln(os.Stderr, "DEBUG:", strings.Join(parts, " | "))
		}
	case "verifSample":
		// records a human-readable sample of what this path explored
		id, _ := constString(args[0])
		w.job.mu.Lock()
		if len(w.job.Samples) < 12 {
			w.job.Samples = append(w.job.Samples, id+": "+fmt.Sprint(traceStrings(st)))
		}
		w.job.mu.Unlock()
	case "verifEvent":
		w.emit(st, EvProbe, StrV{}, "", args[0].(Term), args[1].(Term))
	case "verifNumEvents":
		set(mkBV(uint64(len(st.trace)), 64))
	case "verifClearEvents":
		st.trace = nil
	case "verifEventKind":
		set(mkBV(uint64(st.trace[w.evIndex(st, args[0])].Kind), 64))
	case "verifEventA":
		set(st.trace[w.evIndex(st, args[0])].A)
	case "verifEventB":
		set(st.trace[w.evIndex(st, args[0])].B)
	case "verifEventText":
		set(st.trace[w.evIndex(st, args[0])].Text)
	case "verifEventFmt":
		set(strLit(st.trace[w.evIndex(st, args[0])].Fmt))
	case "verifSameObject":
		a, b := args[0].(*Union), args[1].(*Union)
		res := mkBool(false)
		for _, k := range a.kindsSorted() {
			pb, ok := b.P[k]
			if !ok {
				continue
			}
			same := false
			switch pa := a.P[k].(type) {
			case SliceV:
				q := pb.(SliceV)
				same = pa.id != 0 && pa.id == q.id && pa.off == q.off
			case MapV:
				same = pa.id != 0 && pa.id == pb.(MapV).id
			case Ptr:
				q := pb.(Ptr)
				same = pa.id != 0 && pa.id == q.id && fmt.Sprint(pa.path) == fmt.Sprint(q.path)
			case StructV:
				// value types (the zero-size built-in function structs): same type means same value
				same = len(pa) == 0
			}
			if same {
				res = mkOr(res, mkAnd(a.isKind(k), b.isKind(k)))
			}
		}
		set(res)
	case "verifSharesBacking":
		a, b := args[0].(SliceV), args[1].(SliceV)
		set(mkBool(a.id != 0 && a.id == b.id))
	case "verifSetArgs":
		var as []StrV
		for _, v := range st.sliceElems(args[0].(SliceV)) {
			as = append(as, v.(StrV))
		}
		w.proc(st).args = as
	case "verifSetStdin":
		p := w.proc(st)
		p.stdinLines = int(intArg(0))
		b, ok := args[1].(Term).boolVal()
		if !ok {
			panic(engineErr("verifSetStdin: concrete flag expected"))
		}
		p.stdinNL = b
	case "verifSetStdinText":
		p := w.proc(st)
		p.lineText = nil
		for _, v := range st.sliceElems(args[0].(SliceV)) {
			p.lineText = append(p.lineText, v.(StrV))
		}
		p.stdinLines = len(p.lineText)
		p.stdinNL = true
	case "verifSetStdinFinalNewline":
		b, ok := args[0].(Term).boolVal()
		if !ok {
			panic(engineErr("verifSetStdinFinalNewline: concrete flag expected"))
		}
		w.proc(st).stdinNL = b
	case "verifStdinLine":
		set(stdinLine(int(intArg(0))))
	case "verifStdinPos":
		set(mkBV(uint64(st.stdinPos), 64))
	case "verifSetFile":
		p := w.proc(st)
		b, ok := args[0].(Term).boolVal()
		if !ok {
			panic(engineErr("verifSetFile: concrete flag expected"))
		}
		p.fileOK, p.fileText = b, args[1].(StrV)
		if c, isC := p.fileText.concrete(); !b && isC && c == "<dir>" {
			p.fileDir = true
		} else {
			p.fileDir = false
		}
	case "verifRunMain":
		mainPkg := w.e.pkgs["main"]
		if mainPkg == nil || mainPkg.Func("main") == nil {
			panic(engineErr("no main.main"))
		}
		// a fresh process: package-level state as it is after initialisation, empty trace
		for id, v := range w.e.base.heap {
			st.heap[id] = deep(v)
		}
		st.trace = nil
		st.stdinPos = 0
		st.exited = false
		w.proc(st).stdinMode = 0
		w.proc(st).catchDepth = len(st.frames)
		w.invoke(st, f, nil, mainPkg.Func("main"), nil, nil)
	case "verifProcStdout", "verifProcStderr":
		want := EvStdout
		if name == "verifProcStderr" {
			want = EvStderr
		}
		out := StrV{}
		for _, ev := range st.trace {
			if ev.Kind == want {
				out = strCat(out, ev.Text)
			}
		}
		set(out)
	case "verifProcExit":
		code := mkBV(0, 64)
		for _, ev := range st.trace {
			if ev.Kind == EvExit {
				code = ev.A
				break
			}
		}
		set(code)
	case "verifTextContainsInOrder":
		// structural containment: every part occurs, in order, as a contiguous run of segments
		text := args[0].(StrV)
		parts := st.sliceElems(args[1].(SliceV))
		set(containsInOrder(text, parts))
	default:
		panic(engineErr("unknown harness intrinsic " + name))
	}
}

func (w *Worker) evIndex(st *State, v Value) int {
	i, ok := v.(Term).intVal()
	if !ok {
		panic(engineErr("event index must be concrete"))
	}
	if i < 0 || int(i) >= len(st.trace) {
		panic(engineErr(fmt.Sprintf("event index %d out of range %d", i, len(st.trace))))
	}
	return int(i)
}

func stdinLine(k int) StrV {
	name := fmt.Sprintf("stdinLine%d", k)
	declareUF(name, fmt.Sprintf("(declare-fun %s () Txt)", name))
	return atom(Term{S: name, Sort: STxt})
}

// unit segments of a text: one code point (BV32 term) or one opaque atom (Txt term) each
type unitSeg struct {
	atom bool
	t    Term
}

func expand(s StrV) []unitSeg {
	var out []unitSeg
	for _, g := range s.Segs {
		switch g.K {
		case SegLit:
			for _, r := range g.Lit {
				out = append(out, unitSeg{false, mkBV(uint64(uint32(r)), 32)})
			}
		case SegRune:
			out = append(out, unitSeg{false, g.T})
		case SegAtom:
			out = append(out, unitSeg{true, g.T})
		}
	}
	return out
}

func unitEq(a, b unitSeg) Term {
	if a.atom != b.atom {
		return mkBool(false) // under-approximation: an atom is never matched against code points
	}
	return mkEq(a.t, b.t)
}

// containsInOrder: every part occurs in text, in order, as a run of unit segments; the
// result is a formula over the alignments (decided by the solver under the path constraint).
func containsInOrder(text StrV, parts []Value) Term {
	hay := expand(text)
	needles := make([][]unitSeg, len(parts))
	for i, p := range parts {
		needles[i] = expand(p.(StrV))
	}
	memo := map[[2]int]Term{}
	var f func(p, start int) Term
	f = func(p, start int) Term {
		if p == len(needles) {
			return mkBool(true)
		}
		key := [2]int{p, start}
		if t, ok := memo[key]; ok {
			return t
		}
		nd := needles[p]
		var alts []Term
		for i := start; i+len(nd) <= len(hay); i++ {
			conj := make([]Term, 0, len(nd)+1)
			dead := false
			for j := range nd {
				e := unitEq(hay[i+j], nd[j])
				if e.isFalse() {
					dead = true
					break
				}
				conj = append(conj, e)
			}
			if dead {
				continue
			}
			rest := f(p+1, i+len(nd))
			if rest.isFalse() {
				continue
			}
			conj = append(conj, rest)
			alts = append(alts, mkAnd(conj...))
		}
		r := mkOr(alts...)
		memo[key] = r
		return r
	}
	return f(0, 0)
}

// ---- process environment model (A-os, A-stdin) ------------------------------------------------

var procKey = "proc"

func (w *Worker) proc(st *State) *procModel {
	if st.procM == nil {
		st.procM = &procModel{}
	}
	return st.procM
}

func (w *Worker) osArgs(st *State) Value {
	p := w.proc(st)
	elems := make([]Value, len(p.args))
	for i, a := range p.args {
		elems[i] = a
	}
	if len(elems) == 0 {
		return SliceV{}
	}
	return st.newSlice(elems, len(elems))
}

func (w *Worker) exitHook(st *State) {
	p := w.proc(st)
	if p.catchDepth == 0 || p.catchDepth > len(st.frames) {
		w.endPath("exit")
	}
	// unwind to the harness frame that called verifRunMain
	st.frames = st.frames[:p.catchDepth]
}

func (w *Worker) filepathExt(st *State, set func(Value), s StrV) {
	if c, ok := s.concrete(); ok {
		set(strLit(filepath.Ext(c)))
		return
	}
	rs, ok := s.runeLevel()
	if !ok {
		panic(engineErr("filepath.Ext of opaque text"))
	}
	// Ext scans backwards for '.', stopping at '/'; multi-byte code points contain neither byte.
	n := len(rs)
	isDot := func(i int) Term { return mkEq(rs[i], mkBV('.', 32)) }
	isSep := func(i int) Term { return mkEq(rs[i], mkBV('/', 32)) }
	var conds []Term
	for i := n - 1; i >= 0; i-- {
		c := isDot(i)
		for j := i + 1; j < n; j++ {
			c = mkAnd(c, mkNot(isDot(j)), mkNot(isSep(j)))
		}
		conds = append(conds, c)
		if can, _ := w.branch(st, c); can {
			o := st.clone()
			o.assume(c)
			of := o.top()
			ins := of.blk.Instrs[of.idx-1].(ssa.Value)
			of.env[ins] = strRunes(rs[i:])
			w.push(o)
		}
	}
	none := mkNot(mkOr(conds...))
	if can, _ := w.branch(st, none); !can {
		w.endPath("infeasible")
	}
	st.assume(none)
	set(StrV{})
}

func (w *Worker) osReadFile(st *State, set func(Value), path StrV) {
	p := w.proc(st)
	byteSlice := types.NewSlice(types.Typ[types.Byte])
	_ = byteSlice
	if !p.fileOK {
		if p.fileDir {
			set(Tuple{SliceV{}, w.mkErr(st, strLit("read: is a directory"))})
			return
		}
		set(Tuple{SliceV{}, w.mkErr(st, strLit("open: no such file or directory"))})
		return
	}
	// the content is carried as a string-typed pseudo slice: string(rawContent) gives it back
	id := st.alloc(ArrayV{p.fileText})
	set(Tuple{SliceV{id: id, off: 0, n: -1, cap: -1}, nilUnion()})
}

// Reader object: heap StructV{ buffered-lines-remaining (BV64) } — the lines it holds are
// stdinPos-rem … stdinPos-1 of the process's stdin.
func (w *Worker) readerReadString(st *State, set func(Value), r Ptr) {
	p := w.proc(st)
	obj := st.heap[r.id].(StructV)
	rem, _ := obj[0].(Term).intVal()
	if rem == 0 {
		avail := p.stdinLines - st.stdinPos
		if avail <= 0 {
			set(Tuple{StrV{}, eofUnion()})
			return
		}
		// the kernel hands over a chunk of 1..avail lines (A-stdin); fork over the sizes
		for take := 1; take < avail; take++ {
			o := st.clone()
			o.nondets = append(o.nondets, NondetRec{Kind: "chunk", Val: int64(take)})
			o.stdinPos += take
			o.heap[r.id] = StructV{mkBV(uint64(take), 64), mkBV(0, 64)}
			of := o.top()
			of.idx--
			o.instrs--
			w.push(o)
		}
		st.nondets = append(st.nondets, NondetRec{Kind: "chunk", Val: int64(avail)})
		st.stdinPos += avail
		rem = int64(avail)
	}
	lineNo := st.stdinPos - int(rem)
	st.heap[r.id] = StructV{mkBV(uint64(rem-1), 64), mkBV(0, 64)}
	line := stdinLine(lineNo)
	if p.lineText != nil {
		line = p.lineText[lineNo]
	}
	if lineNo == p.stdinLines-1 && !p.stdinNL {
		// an unterminated last line exists only if it has at least one byte
		if _, conc := line.concrete(); !conc {
			st.assume(mkNot(mkEq(line.toTxt(), StrV{}.toTxt())))
		}
		set(Tuple{line, eofUnion()})
		return
	}
	set(Tuple{strCat(line, strLit("\n")), nilUnion()})
}

// readerReadLine: (*bufio.Reader).ReadLine over concrete stdin lines, for a process that reads
// all of stdin through one reader (the REPL; chunking is not observable there). The default
// buffer holds 4096 bytes: a line is handed out whole when its terminator is found within 4096
// bytes, otherwise in pieces of 4096 bytes (4095 when the piece would end in '\r') with
// isPrefix set; a trailing "\r\n" or "\n" is dropped; an unterminated last line comes without an
// error and the next call reports io.EOF.
func (w *Worker) readerReadLine(st *State, set func(Value), r Ptr) {
	p := w.proc(st)
	obj := st.heap[r.id].(StructV)
	off64, _ := obj[1].(Term).intVal()
	off := int(off64)
	byteSlice := func(b []byte) Value {
		if len(b) == 0 {
			return SliceV{id: st.alloc(ArrayV{}), off: 0, n: 0, cap: 0}
		}
		elems := make([]Value, len(b))
		for i := range b {
			elems[i] = mkBV(uint64(b[i]), 8)
		}
		return st.newSlice(elems, len(elems))
	}
	for {
		if st.stdinPos >= p.stdinLines {
			set(Tuple{SliceV{}, mkBool(false), eofUnion()})
			return
		}
		lineNo := st.stdinPos
		lt := stdinLine(lineNo)
		if p.lineText != nil {
			lt = p.lineText[lineNo]
		}
		text, ok := lt.concrete()
		if !ok {
			panic(engineErr("ReadLine over a symbolic stdin line"))
		}
		rest := []byte(text)[off:]
		last := lineNo == p.stdinLines-1 && !p.stdinNL
		if len(rest) >= 4096 {
			n := 4096
			if rest[n-1] == '\r' {
				n--
			}
			st.heap[r.id] = StructV{obj[0], mkBV(uint64(off+n), 64)}
			set(Tuple{byteSlice(rest[:n]), mkBool(true), nilUnion()})
			return
		}
		st.stdinPos++
		st.heap[r.id] = StructV{obj[0], mkBV(0, 64)}
		if last && len(rest) == 0 {
			off = 0
			continue // nothing left of an unterminated line: end of input
		}
		if !last && len(rest) > 0 && rest[len(rest)-1] == '\r' {
			rest = rest[:len(rest)-1]
		}
		set(Tuple{byteSlice(rest), mkBool(false), nilUnion()})
		return
	}
}

// Scanner object (REPL): one line per Scan, false at end of input. The REPL creates a single
// scanner, so chunking is not observable there.
func (w *Worker) scannerScan(st *State, set func(Value), r Ptr) {
	p := w.proc(st)
	obj := st.heap[r.id].(StructV)
	if split, ok := obj[3].(FuncV); ok && split.fn != nil {
		w.scannerScanSplit(st, set, r, split)
		return
	}
	if stopped, _ := obj[2].(Term).boolVal(); stopped || st.stdinPos >= p.stdinLines {
		set(mkBool(false))
		return
	}
	// a line that does not fit into the scanner's buffer (default 64 KB) is not delivered:
	// Scan reports false (ErrTooLong) from then on
	if p.lineText != nil && st.stdinPos < len(p.lineText) {
		if text, ok := p.lineText[st.stdinPos].concrete(); ok {
			if mx, _ := obj[1].(Term).intVal(); int64(len(text)) >= mx {
				nobj := append(StructV{}, obj...)
				nobj[2] = mkBool(true)
				st.heap[r.id] = nobj
				set(mkBool(false))
				return
			}
		}
	}
	nobj := append(StructV{}, obj...)
	nobj[0] = mkBV(uint64(st.stdinPos), 64)
	st.heap[r.id] = nobj
	st.stdinPos++
	set(mkBool(true))
}

// stdinBytes: the whole of stdin as bytes (concrete line texts only).
func (w *Worker) stdinBytes(st *State) []byte {
	p := w.proc(st)
	var b []byte
	for k := 0; k < p.stdinLines; k++ {
		lt := stdinLine(k)
		if p.lineText != nil {
			lt = p.lineText[k]
		}
		text, ok := lt.concrete()
		if !ok {
			panic(engineErr("a Scanner with its own split function over symbolic stdin lines"))
		}
		b = append(b, text...)
		if k < p.stdinLines-1 || p.stdinNL {
			b = append(b, '\n')
		}
	}
	return b
}

// scannerScanSplit: Scan of a Scanner that was given a split function, byte by byte as bufio
// does it. The split function — the repository's own code — runs on the bytes read so far;
// when it asks for more, the operating system delivers the next 1..all remaining bytes (every
// size is explored: a fork per size), or end of input. In this mode the position in stdin is
// counted in bytes, and only this scanner may read stdin in the process.
func (w *Worker) scannerScanSplit(st *State, set func(Value), r Ptr, split FuncV) {
	all := w.stdinBytes(st)
	p := w.proc(st)
	if p.stdinMode == 1 {
		panic(engineErr("stdin read both by lines and by bytes in one process"))
	}
	p.stdinMode = 2
	for rounds := 0; rounds < 10000; rounds++ {
		obj := st.heap[r.id].(StructV)
		buf, _ := obj[4].(StrV).concrete()
		eof, _ := obj[6].(Term).boolVal()
		if len(buf) > 0 || eof {
			data := SliceV{}
			if len(buf) > 0 {
				elems := make([]Value, len(buf))
				for i := 0; i < len(buf); i++ {
					elems[i] = mkBV(uint64(buf[i]), 8)
				}
				data = st.newSlice(elems, len(elems))
			}
			res := w.callSync(st, split.fn, []Value{data, mkBool(eof)}, split.bindings...).(Tuple)
			adv, ok := res[0].(Term).intVal()
			if !ok {
				panic(engineErr("split function returned a symbolic advance"))
			}
			if eu, isU := res[2].(*Union); isU {
				if k, c := eu.constKind(); !c || k != KNil {
					panic(engineErr("split function returned an error"))
				}
			}
			if adv < 0 || int(adv) > len(buf) {
				panic(engineErr("split function advanced beyond the data"))
			}
			tok := res[1].(SliceV)
			nobj := append(StructV{}, obj...)
			nobj[4] = strLit(buf[adv:])
			if tok.id != 0 || adv > 0 && tok.n > 0 {
				nobj[5] = strLit(string(concreteBytes(st, tok)))
				st.heap[r.id] = nobj
				set(mkBool(true))
				return
			}
			if tok.id != 0 {
				nobj[5] = StrV{}
				st.heap[r.id] = nobj
				set(mkBool(true))
				return
			}
			st.heap[r.id] = nobj
			if adv > 0 {
				continue // bytes skipped, no token yet
			}
			if eof {
				set(mkBool(false))
				return
			}
		}
		// more data: a read delivers the next 1..remaining bytes, or reports end of input
		rem := len(all) - st.stdinPos
		obj = st.heap[r.id].(StructV)
		if rem <= 0 {
			nobj := append(StructV{}, obj...)
			nobj[6] = mkBool(true)
			st.heap[r.id] = nobj
			continue
		}
		cur, _ := obj[4].(StrV).concrete()
		for take := 1; take < rem; take++ {
			o := st.clone()
			o.nondets = append(o.nondets, NondetRec{Kind: "bytechunk", Val: int64(take)})
			oobj := append(StructV{}, o.heap[r.id].(StructV)...)
			oobj[4] = strLit(cur + string(all[st.stdinPos:st.stdinPos+take]))
			o.heap[r.id] = oobj
			o.stdinPos += take
			of := o.top()
			of.idx--
			o.instrs--
			w.push(o)
		}
		st.nondets = append(st.nondets, NondetRec{Kind: "bytechunk", Val: int64(rem)})
		nobj := append(StructV{}, obj...)
		nobj[4] = strLit(cur + string(all[st.stdinPos:]))
		st.heap[r.id] = nobj
		st.stdinPos += rem
	}
	panic(engineErr("Scanner made no progress"))
}

func (w *Worker) scannerText(st *State, set func(Value), r Ptr) {
	obj := st.heap[r.id].(StructV)
	if split, ok := obj[3].(FuncV); ok && split.fn != nil {
		set(obj[5].(StrV))
		return
	}
	k, _ := obj[0].(Term).intVal()
	p := w.proc(st)
	if p.lineText != nil && int(k) < len(p.lineText) {
		set(p.lineText[k])
		return
	}
	set(stdinLine(int(k)))
}

func debugValue(st *State, v Value) string {
	switch x := v.(type) {
	case *Union:
		if k, ok := x.constKind(); ok {
			if k == KNil {
				return "nil"
			}
			return kinds.name(k) + ":" + debugValue(st, x.P[k])
		}
		return "union(tag=" + x.Tag.S + ")"
	case Term:
		return x.S
	case StrV:
		return "str<" + x.key() + ">"
	case SliceV:
		var ps []string
		for _, e := range st.sliceElems(x) {
			ps = append(ps, debugValue(st, e))
		}
		return "[" + strings.Join(ps, ",") + "]"
	}
	return fmt.Sprintf("%T", v)
}
