package main

// Pure-callee summarisation (DESIGN §2.4): a callee whose CFG is acyclic, that performs no
// store, allocation, map access or diagnostic, whose operations cannot panic, and that
// returns one scalar, is evaluated once over its CFG into a single ite term instead of being
// forked through. Without it the short-circuit || in isDigit/isAlpha multiplies paths.

import (
	"go/token"
	"go/types"

	"golang.org/x/tools/go/ssa"
)

var pureIntrinsics = map[string]bool{
	"unicode.IsLetter": true, "unicode.IsMark": true, "unicode.IsDigit": true, "unicode.IsNumber": true, "unicode.IsSpace": true, "unicode.IsUpper": true, "unicode.IsLower": true, "unicode.IsPunct": true,
	"math.Abs": true, "math.Sqrt": true, "math.Round": true, "math.Floor": true, "math.Ceil": true, "math.Trunc": true, "math.IsNaN": true, "math.Signbit": true,
}

func (e *Engine) isPure(fn *ssa.Function) bool {
	if v, ok := e.pureMemo.Load(fn); ok {
		return v.(bool)
	}
	r := e.computePure(fn, map[*ssa.Function]bool{})
	e.pureMemo.Store(fn, r)
	return r
}

func (e *Engine) computePure(fn *ssa.Function, seen map[*ssa.Function]bool) bool {
	if seen[fn] || len(fn.Blocks) == 0 {
		return false
	}
	seen[fn] = true
	res := fn.Signature.Results()
	if res.Len() != 1 {
		return false
	}
	if b, ok := res.At(0).Type().Underlying().(*types.Basic); !ok || b.Info()&types.IsString != 0 {
		return false
	}
	// acyclic?
	color := map[*ssa.BasicBlock]int{}
	ok := true
	var dfs func(b *ssa.BasicBlock)
	dfs = func(b *ssa.BasicBlock) {
		color[b] = 1
		for _, s := range b.Succs {
			if color[s] == 1 {
				ok = false
			} else if color[s] == 0 {
				dfs(s)
			}
		}
		color[b] = 2
	}
	dfs(fn.Blocks[0])
	if !ok {
		return false
	}
	for _, b := range fn.Blocks {
		for _, ins := range b.Instrs {
			switch x := ins.(type) {
			case *ssa.Phi, *ssa.If, *ssa.Jump, *ssa.Return, *ssa.Extract, *ssa.DebugRef:
			case *ssa.BinOp:
				switch x.Op {
				case token.QUO, token.REM, token.SHL, token.SHR:
					if bt, isB := x.X.Type().Underlying().(*types.Basic); !isB || bt.Info()&types.IsFloat == 0 {
						return false
					}
				case token.EQL, token.NEQ:
					if isInterface(x.X.Type()) {
						// only comparisons against the nil constant are panic-free
						cx, okx := x.X.(*ssa.Const)
						cy, oky := x.Y.(*ssa.Const)
						if !(okx && cx.Value == nil) && !(oky && cy.Value == nil) {
							return false
						}
					}
				}
				if bt, isB := x.X.Type().Underlying().(*types.Basic); isB && bt.Info()&types.IsString != 0 && x.Op != token.EQL && x.Op != token.NEQ {
					return false
				}
			case *ssa.UnOp:
				if x.Op == token.MUL || x.Op == token.ARROW {
					return false
				}
			case *ssa.TypeAssert:
				if !x.CommaOk {
					return false
				}
			case *ssa.Convert:
				_, fb := x.X.Type().Underlying().(*types.Basic)
				_, tb := x.Type().Underlying().(*types.Basic)
				if !fb || !tb {
					return false
				}
			case *ssa.Call:
				c := x.Call.StaticCallee()
				if c == nil || x.Call.IsInvoke() {
					return false
				}
				if pureIntrinsics[c.String()] {
					continue
				}
				if c.Pkg == nil || c.Pkg != fn.Pkg && !sameModule(c) {
					return false
				}
				if !e.computePure(c, seen) {
					return false
				}
			default:
				return false
			}
		}
	}
	return true
}

func sameModule(fn *ssa.Function) bool {
	return fn.Pkg != nil && len(fn.Pkg.Pkg.Path()) >= len(gCfg.Module) && fn.Pkg.Pkg.Path()[:len(gCfg.Module)] == gCfg.Module
}

func topo(fn *ssa.Function) []*ssa.BasicBlock {
	seen := map[*ssa.BasicBlock]bool{}
	var out []*ssa.BasicBlock
	var visit func(b *ssa.BasicBlock)
	visit = func(b *ssa.BasicBlock) {
		seen[b] = true
		for _, s := range b.Succs {
			if !seen[s] {
				visit(s)
			}
		}
		out = append(out, b)
	}
	visit(fn.Blocks[0])
	for i, j := 0, len(out)-1; i < j; i, j = i+1, j-1 {
		out[i], out[j] = out[j], out[i]
	}
	return out
}

type edge struct{ from, to *ssa.BasicBlock }

func addEdge(m map[edge]Term, e edge, c Term) {
	if old, ok := m[e]; ok {
		m[e] = mkOr(old, c)
	} else {
		m[e] = c
	}
}

func (w *Worker) summarise(st *State, fn *ssa.Function, args []Value) (Value, bool) {
	env := map[ssa.Value]Value{}
	for i, p := range fn.Params {
		env[p] = args[i]
	}
	edges := map[edge]Term{}
	reach := map[*ssa.BasicBlock]Term{fn.Blocks[0]: mkBool(true)}
	var result Value
	ok := true
	get := func(v ssa.Value) Value {
		if c, isC := v.(*ssa.Const); isC {
			return w.konst(c)
		}
		r, has := env[v]
		if !has {
			ok = false
			return mkBool(false)
		}
		return r
	}
	for _, b := range topo(fn) {
		r, has := reach[b]
		if !has {
			r = mkBool(false)
			for _, p := range b.Preds {
				if c, okc := edges[edge{p, b}]; okc {
					r = mkOr(r, c)
				}
			}
			reach[b] = r
		}
		for _, ins := range b.Instrs {
			switch x := ins.(type) {
			case *ssa.DebugRef:
			case *ssa.Phi:
				var acc Value
				for i, p := range b.Preds {
					c, okc := edges[edge{p, b}]
					if !okc {
						continue
					}
					v := get(x.Edges[i])
					if acc == nil {
						acc = v
					} else {
						m, okm := iteValue(c, v, acc)
						if !okm {
							return nil, false
						}
						acc = m
					}
				}
				env[x] = acc
			case *ssa.BinOp:
				env[x] = w.binop(st, x, get(x.X), get(x.Y))
			case *ssa.UnOp:
				switch x.Op {
				case token.NOT:
					env[x] = mkNot(get(x.X).(Term))
				case token.SUB:
					t := get(x.X).(Term)
					if t.Sort == SFP {
						env[x] = fpNeg(t)
					} else {
						env[x] = bvNeg(t)
					}
				case token.XOR:
					env[x] = bvNot(get(x.X).(Term))
				default:
					return nil, false
				}
			case *ssa.TypeAssert:
				u, isU := get(x.X).(*Union)
				if !isU {
					return nil, false
				}
				if _, isI := x.AssertedType.Underlying().(*types.Interface); isI {
					return nil, false
				}
				k := kinds.of(x.AssertedType)
				var res Value = zero(x.AssertedType)
				if p, hasP := u.P[k]; hasP {
					res = p
				}
				env[x] = Tuple{res, u.isKind(k)}
			case *ssa.Extract:
				env[x] = get(x.Tuple).(Tuple)[x.Index]
			case *ssa.Convert:
				env[x] = w.convert(st, x, get(x.X))
			case *ssa.Call:
				c := x.Call.StaticCallee()
				as := make([]Value, len(x.Call.Args))
				for i, a := range x.Call.Args {
					as[i] = get(a)
				}
				if pureIntrinsics[c.String()] {
					tmp := &Frame{env: env}
					if !w.intrinsic(st, tmp, x, c, as) {
						return nil, false
					}
				} else {
					v, okv := w.summarise(st, c, as)
					if !okv {
						return nil, false
					}
					env[x] = v
				}
			case *ssa.If:
				c := get(x.Cond).(Term)
				addEdge(edges, edge{b, b.Succs[0]}, mkAnd(r, c))
				addEdge(edges, edge{b, b.Succs[1]}, mkAnd(r, mkNot(c)))
			case *ssa.Jump:
				addEdge(edges, edge{b, b.Succs[0]}, r)
			case *ssa.Return:
				v := get(x.Results[0])
				if result == nil {
					result = v
				} else {
					m, okm := iteValue(r, v, result)
					if !okm {
						return nil, false
					}
					result = m
				}
			default:
				return nil, false
			}
			if !ok {
				return nil, false
			}
		}
	}
	return result, result != nil
}
