package main

// Terms: SMT-LIB2 text with a sort, an optional concrete value (Lit) and the set of
// symbols that occur in it (used for constraint-independence slicing). All construction goes
// through the helpers below, which fold constants, so that "concrete" computations never
// reach a solver.

import (
	"fmt"
	"math"
	"sort"
	"strings"
)

type Sort int

const (
	SBool Sort = iota
	SBV8
	SBV16
	SBV32
	SBV64
	SFP
	STxt // uninterpreted sort for opaque text atoms (fmtF(x), …)
)

func (s Sort) width() int {
	switch s {
	case SBV8:
		return 8
	case SBV16:
		return 16
	case SBV32:
		return 32
	case SBV64:
		return 64
	}
	return 0
}

func bvSort(w int) Sort {
	switch w {
	case 8:
		return SBV8
	case 16:
		return SBV16
	case 32:
		return SBV32
	case 64:
		return SBV64
	}
	panic(fmt.Sprintf("bvSort %d", w))
}

func (s Sort) smt() string {
	switch s {
	case SBool:
		return "Bool"
	case SBV8:
		return "(_ BitVec 8)"
	case SBV16:
		return "(_ BitVec 16)"
	case SBV32:
		return "(_ BitVec 32)"
	case SBV64:
		return "(_ BitVec 64)"
	case SFP:
		return "(_ FloatingPoint 11 53)"
	case STxt:
		return "Txt"
	}
	panic("sort")
}

type Term struct {
	S    string
	Sort Sort
	Lit  interface{} // bool | uint64 (bit pattern, masked to width) | float64 ; nil if symbolic
	Syms []string    // sorted, unique
	ite  *iteParts   // set when the term is (ite c a b)
}

type iteParts struct{ c, a, b Term }

func (t Term) IsLit() bool { return t.Lit != nil }
func (t Term) String() string {
	return t.S
}

func mergeSyms(xs ...[]string) []string {
	n := 0
	nonEmpty := 0
	var last []string
	for _, x := range xs {
		if len(x) > 0 {
			nonEmpty++
			last = x
			n += len(x)
		}
	}
	if nonEmpty == 0 {
		return nil
	}
	if nonEmpty == 1 {
		return last
	}
	out := make([]string, 0, n)
	for _, x := range xs {
		out = append(out, x...)
	}
	sort.Strings(out)
	j := 0
	for i, s := range out {
		if i == 0 || s != out[j-1] {
			out[j] = s
			j++
		}
	}
	return out[:j]
}

func symsOf(ts ...Term) []string {
	l := make([][]string, len(ts))
	for i, t := range ts {
		l[i] = t.Syms
	}
	return mergeSyms(l...)
}

// ---- constructors -------------------------------------------------------------------

func mkBool(b bool) Term {
	if b {
		return Term{S: "true", Sort: SBool, Lit: true}
	}
	return Term{S: "false", Sort: SBool, Lit: false}
}

func mask(w int) uint64 {
	if w >= 64 {
		return ^uint64(0)
	}
	return (uint64(1) << uint(w)) - 1
}

func mkBV(v uint64, w int) Term {
	v &= mask(w)
	return Term{S: fmt.Sprintf("#x%0*x", w/4, v), Sort: bvSort(w), Lit: v}
}

func mkFP(f float64) Term {
	b := math.Float64bits(f)
	if f != f {
		return Term{S: "(_ NaN 11 53)", Sort: SFP, Lit: f}
	}
	return Term{S: fmt.Sprintf("(fp #b%b #b%011b #x%013x)", b>>63, (b>>52)&0x7ff, b&((1<<52)-1)), Sort: SFP, Lit: f}
}

func mkSym(name string, s Sort) Term {
	return Term{S: name, Sort: s, Syms: []string{name}}
}

// maxTermBytes bounds the text of a single term. Terms are trees, not DAGs: code that
// squares a value in a loop doubles the term every iteration; such a path is given up
// (inconclusive) long before it can exhaust memory.
const maxTermBytes = 4 << 20

func checkTermSize(n int) {
	if n > maxTermBytes {
		panic(engineErr(fmt.Sprintf("term larger than %d bytes (repeated self-composition in a loop?)", maxTermBytes)))
	}
}

func app(s Sort, f string, xs ...Term) Term {
	n := 0
	for _, x := range xs {
		n += len(x.S)
	}
	checkTermSize(n)
	var b strings.Builder
	b.WriteByte('(')
	b.WriteString(f)
	for _, x := range xs {
		b.WriteByte(' ')
		b.WriteString(x.S)
	}
	b.WriteByte(')')
	return Term{S: b.String(), Sort: s, Syms: symsOf(xs...)}
}

func (t Term) boolVal() (bool, bool) {
	b, ok := t.Lit.(bool)
	return b, ok
}
func (t Term) isTrue() bool  { b, ok := t.Lit.(bool); return ok && b }
func (t Term) isFalse() bool { b, ok := t.Lit.(bool); return ok && !b }

// unsigned bit pattern
func (t Term) bvVal() (uint64, bool) {
	v, ok := t.Lit.(uint64)
	return v, ok
}

// signed interpretation
func (t Term) intVal() (int64, bool) {
	v, ok := t.Lit.(uint64)
	if !ok {
		return 0, false
	}
	return signExt(v, t.Sort.width()), true
}

func signExt(v uint64, w int) int64 {
	if w >= 64 {
		return int64(v)
	}
	if v&(1<<uint(w-1)) != 0 {
		return int64(v | ^mask(w))
	}
	return int64(v)
}

func (t Term) fpVal() (float64, bool) {
	v, ok := t.Lit.(float64)
	return v, ok
}

// ---- boolean -------------------------------------------------------------------------

func mkNot(a Term) Term {
	if b, ok := a.boolVal(); ok {
		return mkBool(!b)
	}
	if strings.HasPrefix(a.S, "(not ") {
		inner := a.S[5 : len(a.S)-1]
		return Term{S: inner, Sort: SBool, Syms: a.Syms}
	}
	return Term{S: "(not " + a.S + ")", Sort: SBool, Syms: a.Syms}
}

func mkAnd(xs ...Term) Term {
	var keep []Term
	for _, x := range xs {
		if x.isFalse() {
			return mkBool(false)
		}
		if x.isTrue() {
			continue
		}
		dup := false
		for _, k := range keep {
			if k.S == x.S {
				dup = true
			}
		}
		if !dup {
			keep = append(keep, x)
		}
	}
	switch len(keep) {
	case 0:
		return mkBool(true)
	case 1:
		return keep[0]
	}
	return app(SBool, "and", keep...)
}

func mkOr(xs ...Term) Term {
	var keep []Term
	for _, x := range xs {
		if x.isTrue() {
			return mkBool(true)
		}
		if x.isFalse() {
			continue
		}
		dup := false
		for _, k := range keep {
			if k.S == x.S {
				dup = true
			}
		}
		if !dup {
			keep = append(keep, x)
		}
	}
	switch len(keep) {
	case 0:
		return mkBool(false)
	case 1:
		return keep[0]
	}
	return app(SBool, "or", keep...)
}

func mkImplies(a, b Term) Term { return mkOr(mkNot(a), b) }

func mkIte(c, a, b Term) Term {
	if c.isTrue() {
		return a
	}
	if c.isFalse() {
		return b
	}
	if a.S == b.S {
		return a
	}
	if a.Sort == SBool {
		if a.isTrue() && b.isFalse() {
			return c
		}
		if a.isFalse() && b.isTrue() {
			return mkNot(c)
		}
		if a.isTrue() {
			return mkOr(c, b)
		}
		if a.isFalse() {
			return mkAnd(mkNot(c), b)
		}
		if b.isTrue() {
			return mkOr(mkNot(c), a)
		}
		if b.isFalse() {
			return mkAnd(c, a)
		}
	}
	checkTermSize(len(c.S) + len(a.S) + len(b.S))
	return Term{S: "(ite " + c.S + " " + a.S + " " + b.S + ")", Sort: a.Sort, Syms: symsOf(c, a, b), ite: &iteParts{c, a, b}}
}

// mkEq is structural/bit equality ("=" in SMT-LIB); for FP use mkFPEq for IEEE equality.
func mkEq(a, b Term) Term {
	if a.Sort != b.Sort {
		panic(fmt.Sprintf("mkEq sorts %v %v: %s / %s", a.Sort, b.Sort, a.S, b.S))
	}
	if a.S == b.S {
		return mkBool(true)
	}
	if a.IsLit() && b.IsLit() {
		switch x := a.Lit.(type) {
		case bool:
			return mkBool(x == b.Lit.(bool))
		case uint64:
			return mkBool(x == b.Lit.(uint64))
		case float64:
			y := b.Lit.(float64)
			return mkBool(math.Float64bits(x) == math.Float64bits(y) || (x != x && y != y))
		}
	}
	// (= (ite c x y) lit) distributes, so that tests of a selected tag become tests of the selector
	if a.ite != nil && b.IsLit() && a.Sort != SFP {
		return mkIte(a.ite.c, mkEq(a.ite.a, b), mkEq(a.ite.b, b))
	}
	if b.ite != nil && a.IsLit() && b.Sort != SFP {
		return mkIte(b.ite.c, mkEq(b.ite.a, a), mkEq(b.ite.b, a))
	}
	if a.Sort == SBool {
		if a.isTrue() {
			return b
		}
		if b.isTrue() {
			return a
		}
		if a.isFalse() {
			return mkNot(b)
		}
		if b.isFalse() {
			return mkNot(a)
		}
	}
	// canonical order so that (= x y) and (= y x) are the same text
	if b.S < a.S {
		a, b = b, a
	}
	return app(SBool, "=", a, b)
}

// ---- bit-vectors ----------------------------------------------------------------------

func bvBin(op string, a, b Term, signed bool) Term {
	w := a.Sort.width()
	if w == 0 || a.Sort != b.Sort {
		panic(fmt.Sprintf("bvBin %s sorts %v %v: %s / %s", op, a.Sort, b.Sort, a.S, b.S))
	}
	x, xok := a.bvVal()
	y, yok := b.bvVal()
	if xok && yok {
		sx, sy := signExt(x, w), signExt(y, w)
		switch op {
		case "bvadd":
			return mkBV(x+y, w)
		case "bvsub":
			return mkBV(x-y, w)
		case "bvmul":
			return mkBV(x*y, w)
		case "bvand":
			return mkBV(x&y, w)
		case "bvor":
			return mkBV(x|y, w)
		case "bvxor":
			return mkBV(x^y, w)
		case "bvudiv":
			if y != 0 {
				return mkBV(x/y, w)
			}
		case "bvurem":
			if y != 0 {
				return mkBV(x%y, w)
			}
		case "bvsdiv":
			if y != 0 && !(sx == math.MinInt64 && sy == -1) {
				return mkBV(uint64(sx/sy), w)
			}
		case "bvsrem":
			if y != 0 && !(sx == math.MinInt64 && sy == -1) {
				return mkBV(uint64(sx%sy), w)
			}
		case "bvshl":
			if y >= uint64(w) {
				return mkBV(0, w)
			}
			return mkBV(x<<y, w)
		case "bvlshr":
			if y >= uint64(w) {
				return mkBV(0, w)
			}
			return mkBV(x>>y, w)
		case "bvashr":
			if y >= uint64(w) {
				if sx < 0 {
					return mkBV(^uint64(0), w)
				}
				return mkBV(0, w)
			}
			return mkBV(uint64(sx>>y), w)
		}
	}
	// cheap identities
	switch op {
	case "bvadd":
		if xok && x == 0 {
			return b
		}
		if yok && y == 0 {
			return a
		}
	case "bvsub":
		if yok && y == 0 {
			return a
		}
	}
	return app(a.Sort, op, a, b)
}

func bvCmp(op string, a, b Term) Term {
	w := a.Sort.width()
	if w == 0 || a.Sort != b.Sort {
		panic(fmt.Sprintf("bvCmp %s sorts %v %v: %s / %s", op, a.Sort, b.Sort, a.S, b.S))
	}
	x, xok := a.bvVal()
	y, yok := b.bvVal()
	if xok && yok {
		sx, sy := signExt(x, w), signExt(y, w)
		switch op {
		case "bvult":
			return mkBool(x < y)
		case "bvule":
			return mkBool(x <= y)
		case "bvugt":
			return mkBool(x > y)
		case "bvuge":
			return mkBool(x >= y)
		case "bvslt":
			return mkBool(sx < sy)
		case "bvsle":
			return mkBool(sx <= sy)
		case "bvsgt":
			return mkBool(sx > sy)
		case "bvsge":
			return mkBool(sx >= sy)
		}
	}
	if a.S == b.S {
		switch op {
		case "bvule", "bvuge", "bvsle", "bvsge":
			return mkBool(true)
		default:
			return mkBool(false)
		}
	}
	return app(SBool, op, a, b)
}

func bvNot(a Term) Term {
	if x, ok := a.bvVal(); ok {
		return mkBV(^x, a.Sort.width())
	}
	return app(a.Sort, "bvnot", a)
}

func bvNeg(a Term) Term {
	if x, ok := a.bvVal(); ok {
		return mkBV(-x, a.Sort.width())
	}
	return app(a.Sort, "bvneg", a)
}

// bvResize converts between widths (Go integer conversion).
func bvResize(a Term, to int, signed bool) Term {
	from := a.Sort.width()
	if from == to {
		return a
	}
	if x, ok := a.bvVal(); ok {
		if to > from && signed {
			return mkBV(uint64(signExt(x, from)), to)
		}
		return mkBV(x, to)
	}
	if to < from {
		return Term{S: fmt.Sprintf("((_ extract %d 0) %s)", to-1, a.S), Sort: bvSort(to), Syms: a.Syms}
	}
	op := "zero_extend"
	if signed {
		op = "sign_extend"
	}
	return Term{S: fmt.Sprintf("((_ %s %d) %s)", op, to-from, a.S), Sort: bvSort(to), Syms: a.Syms}
}

// ---- floating point -----------------------------------------------------------------

func fpBin(op string, a, b Term) Term {
	x, xok := a.fpVal()
	y, yok := b.fpVal()
	if xok && yok {
		switch op {
		case "fp.add":
			return mkFP(x + y)
		case "fp.sub":
			return mkFP(x - y)
		case "fp.mul":
			return mkFP(x * y)
		case "fp.div":
			return mkFP(x / y)
		}
	}
	checkTermSize(len(a.S) + len(b.S))
	return Term{S: "(" + op + " RNE " + a.S + " " + b.S + ")", Sort: SFP, Syms: symsOf(a, b)}
}

func fpCmp(op string, a, b Term) Term {
	x, xok := a.fpVal()
	y, yok := b.fpVal()
	if xok && yok {
		switch op {
		case "fp.lt":
			return mkBool(x < y)
		case "fp.leq":
			return mkBool(x <= y)
		case "fp.gt":
			return mkBool(x > y)
		case "fp.geq":
			return mkBool(x >= y)
		case "fp.eq":
			return mkBool(x == y)
		}
	}
	return app(SBool, op, a, b)
}

func fpNeg(a Term) Term {
	if x, ok := a.fpVal(); ok {
		return mkFP(-x)
	}
	return app(SFP, "fp.neg", a)
}

func fpAbs(a Term) Term {
	if x, ok := a.fpVal(); ok {
		return mkFP(math.Abs(x))
	}
	return app(SFP, "fp.abs", a)
}

func fpSqrt(a Term) Term {
	if x, ok := a.fpVal(); ok {
		return mkFP(math.Sqrt(x))
	}
	return Term{S: "(fp.sqrt RNE " + a.S + ")", Sort: SFP, Syms: a.Syms}
}

func fpRound(mode string, a Term) Term {
	if x, ok := a.fpVal(); ok {
		switch mode {
		case "RNA":
			return mkFP(math.Round(x))
		case "RTN":
			return mkFP(math.Floor(x))
		case "RTP":
			return mkFP(math.Ceil(x))
		case "RTZ":
			return mkFP(math.Trunc(x))
		}
	}
	return Term{S: "(fp.roundToIntegral " + mode + " " + a.S + ")", Sort: SFP, Syms: a.Syms}
}

func fpIsNaN(a Term) Term {
	if x, ok := a.fpVal(); ok {
		return mkBool(x != x)
	}
	return app(SBool, "fp.isNaN", a)
}

// Go float64 -> int64 conversion on amd64 (CVTTSD2SQ): out-of-range and NaN give MinInt64.
func fpToInt64(a Term) Term {
	if x, ok := a.fpVal(); ok {
		if x != x || x < -9223372036854775808.0 || x >= 9223372036854775808.0 {
			return mkBV(1<<63, 64)
		}
		return mkBV(uint64(int64(x)), 64)
	}
	return app(SBV64, "f2i", a)
}

func int64ToFP(a Term) Term {
	if x, ok := a.intVal(); ok && a.Sort == SBV64 {
		return mkFP(float64(x))
	}
	if a.Sort != SBV64 {
		a = bvResize(a, 64, true)
	}
	return Term{S: "((_ to_fp 11 53) RNE " + a.S + ")", Sort: SFP, Syms: a.Syms}
}

// smtHeader: definitions shared by every query.
const smtHeader = `(declare-sort Txt 0)
(define-fun f2i ((x (_ FloatingPoint 11 53))) (_ BitVec 64) (ite (and (not (fp.isNaN x)) (fp.geq x ((_ to_fp 11 53) RNE (- 9223372036854775808.0))) (fp.lt x ((_ to_fp 11 53) RNE 9223372036854775808.0))) ((_ fp.to_sbv 64) RTZ x) #x8000000000000000))
`

// Uninterpreted functions that may be declared on demand (name -> declaration).
var ufDecls = map[string]string{
	"mPow":     "(declare-fun mPow ((_ FloatingPoint 11 53) (_ FloatingPoint 11 53)) (_ FloatingPoint 11 53))",
	"mMod":     "(declare-fun mMod ((_ FloatingPoint 11 53) (_ FloatingPoint 11 53)) (_ FloatingPoint 11 53))",
	"mSin":     "(declare-fun mSin ((_ FloatingPoint 11 53)) (_ FloatingPoint 11 53))",
	"mCos":     "(declare-fun mCos ((_ FloatingPoint 11 53)) (_ FloatingPoint 11 53))",
	"mTan":     "(declare-fun mTan ((_ FloatingPoint 11 53)) (_ FloatingPoint 11 53))",
	"fmtF":     "(declare-fun fmtF ((_ FloatingPoint 11 53)) Txt)",
	"fmtI":     "(declare-fun fmtI ((_ BitVec 64)) Txt)",
	"fmtQ":     "(declare-fun fmtQ (Txt) Txt)",
	"txtNFC":   "(declare-fun txtNFC (Txt) Txt)",
	"txtTrim":  "(declare-fun txtTrim (Txt) Txt)",
	"txtCat":   "(declare-fun txtCat (Txt Txt) Txt)",
	"txtRune":  "(declare-fun txtRune ((_ BitVec 32)) Txt)",
	"txtEmpty": "(declare-fun txtEmpty () Txt)",
}
