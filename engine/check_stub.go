package main

func runCheck(prop, tier string, noReplay bool) int { return 2 }
func runReplayFile(path string) int              { return 2 }
func replayViolation(e *Engine, j *Job, v *Violation) {}
