package main

import (
	"fmt"
	"go/types"
	"sort"
	"strings"
	"sync"
	"unicode/utf8"

	"golang.org/x/tools/go/ssa"
)

type Value interface{}

// Ptr addresses a heap object (id) and a path of field/element indexes into it. id 0 is nil.
type Ptr struct {
	id   int
	path []int
}

// Extern is an opaque object of a package outside the repo (os.Stderr, …).
type Extern struct{ name string }

type StructV []Value
type ArrayV []Value
type SliceV struct{ id, off, n, cap int }
type MapV struct{ id int }
type Tuple []Value

// MapObj is the heap object behind a Go map: insertion-ordered association list.
type MapObj struct {
	keys []Value
	vals []Value
}

// FuncV is a function value (plain function or closure).
type FuncV struct {
	fn       *ssa.Function
	bindings []Value
}

// IterV is the state of a range loop over a map or string.
type IterV struct {
	isMap bool
	keys  []Value // snapshot in iteration order
	vals  []Value
	m     MapV
	pos   int
}

// ---- strings --------------------------------------------------------------------------
//
// A Go string is a sequence of segments: concrete text, a single code point given by a BV32
// term, or an opaque text atom of the uninterpreted sort Txt (fmtF(x), nfc(...), …).

type SegKind int

const (
	SegLit SegKind = iota
	SegRune
	SegAtom
)

type Seg struct {
	K   SegKind
	Lit string
	T   Term // BV32 for SegRune, Txt for SegAtom
}

type StrV struct{ Segs []Seg }

func strLit(s string) StrV {
	if s == "" {
		return StrV{}
	}
	return StrV{[]Seg{{K: SegLit, Lit: s}}}
}

func strRunes(rs []Term) StrV {
	out := StrV{}
	for _, r := range rs {
		out = strCat(out, StrV{[]Seg{runeSeg(r)}})
	}
	return out
}

func runeSeg(r Term) Seg {
	if v, ok := r.intVal(); ok {
		if v < 0 || v > 0x10FFFF || (v >= 0xD800 && v <= 0xDFFF) {
			v = 0xFFFD
		}
		return Seg{K: SegLit, Lit: string(rune(v))}
	}
	return Seg{K: SegRune, T: r}
}

func strCat(a, b StrV) StrV {
	if len(a.Segs) == 0 {
		return b
	}
	if len(b.Segs) == 0 {
		return a
	}
	out := make([]Seg, 0, len(a.Segs)+len(b.Segs))
	out = append(out, a.Segs...)
	for _, s := range b.Segs {
		if s.K == SegLit && len(out) > 0 && out[len(out)-1].K == SegLit {
			out[len(out)-1] = Seg{K: SegLit, Lit: out[len(out)-1].Lit + s.Lit}
		} else {
			out = append(out, s)
		}
	}
	return StrV{out}
}

func (s StrV) concrete() (string, bool) {
	if len(s.Segs) == 0 {
		return "", true
	}
	if len(s.Segs) == 1 && s.Segs[0].K == SegLit {
		return s.Segs[0].Lit, true
	}
	return "", false
}

// runeLevel returns the code points when the string has no opaque atoms.
func (s StrV) runeLevel() ([]Term, bool) {
	var out []Term
	for _, g := range s.Segs {
		switch g.K {
		case SegLit:
			for _, r := range g.Lit {
				out = append(out, mkBV(uint64(uint32(r)), 32))
			}
			// invalid UTF-8 in a literal decodes to U+FFFD per byte, as Go's range does
			_ = utf8.RuneError
		case SegRune:
			out = append(out, g.T)
		default:
			return nil, false
		}
	}
	return out, true
}

func (s StrV) key() string {
	var b strings.Builder
	for _, g := range s.Segs {
		switch g.K {
		case SegLit:
			fmt.Fprintf(&b, "L%q", g.Lit)
		case SegRune:
			b.WriteString("R" + g.T.S)
		case SegAtom:
			b.WriteString("A" + g.T.S)
		}
	}
	return b.String()
}

func (s StrV) syms() []string {
	var l [][]string
	for _, g := range s.Segs {
		if g.K != SegLit {
			l = append(l, g.T.Syms)
		}
	}
	return mergeSyms(l...)
}

// toTxt renders the string as a term of sort Txt built from free constructors. Only used
// where two strings cannot be compared code point by code point.
func (s StrV) toTxt() Term {
	if len(s.Segs) == 0 {
		return Term{S: "txtEmpty", Sort: STxt}
	}
	var parts []Term
	for _, g := range s.Segs {
		switch g.K {
		case SegLit:
			for _, r := range g.Lit {
				parts = append(parts, app(STxt, "txtRune", mkBV(uint64(uint32(r)), 32)))
			}
		case SegRune:
			parts = append(parts, app(STxt, "txtRune", g.T))
		case SegAtom:
			parts = append(parts, g.T)
		}
	}
	t := parts[len(parts)-1]
	for i := len(parts) - 2; i >= 0; i-- {
		t = app(STxt, "txtCat", parts[i], t)
	}
	return t
}

// strEq is Go's == on strings. exact reports whether the answer is exact (rune-level or
// syntactically identical); otherwise the result is an equation over free Txt constructors,
// which may admit models that real strings do not (filtered by replay).
func strEq(a, b StrV) (Term, bool) {
	if a.key() == b.key() {
		return mkBool(true), true
	}
	ra, oka := a.runeLevel()
	rb, okb := b.runeLevel()
	if oka && okb {
		if len(ra) != len(rb) {
			return mkBool(false), true
		}
		cs := make([]Term, len(ra))
		for i := range ra {
			cs[i] = mkEq(ra[i], rb[i])
		}
		return mkAnd(cs...), true
	}
	// same segmentation with atoms: compare segment-wise when the literal/rune parts line up
	return mkEq(a.toTxt(), b.toTxt()), false
}

// ---- interfaces -----------------------------------------------------------------------
//
// Every interface value is a tagged union: Tag is a BV8 term ranging over kind ids (0 = nil
// interface); P holds one payload per kind the value may have. A constant Tag is an ordinary
// concrete interface value.

type Union struct {
	Tag Term
	P   map[int]Value
}

const KNil = 0

type kindReg struct {
	mu    sync.Mutex
	byKey map[string]int
	types []types.Type
}

var kinds = &kindReg{byKey: map[string]int{"<nil>": 0}, types: []types.Type{nil}}

func (k *kindReg) of(t types.Type) int {
	key := types.TypeString(t, nil)
	k.mu.Lock()
	defer k.mu.Unlock()
	if id, ok := k.byKey[key]; ok {
		return id
	}
	id := len(k.types)
	if id > 250 {
		panic("too many dynamic types")
	}
	k.byKey[key] = id
	k.types = append(k.types, t)
	return id
}

func (k *kindReg) typ(id int) types.Type {
	k.mu.Lock()
	defer k.mu.Unlock()
	return k.types[id]
}

func (k *kindReg) name(id int) string {
	if id == 0 {
		return "nil"
	}
	return types.TypeString(k.typ(id), func(p *types.Package) string { return p.Name() })
}

func (k *kindReg) count() int {
	k.mu.Lock()
	defer k.mu.Unlock()
	return len(k.types)
}

func nilUnion() *Union { return &Union{Tag: mkBV(KNil, 8)} }

func mkUnion(t types.Type, v Value) *Union {
	k := kinds.of(t)
	return &Union{Tag: mkBV(uint64(k), 8), P: map[int]Value{k: v}}
}

func (u *Union) constKind() (int, bool) {
	v, ok := u.Tag.bvVal()
	return int(v), ok
}

func (u *Union) kindsSorted() []int {
	ks := make([]int, 0, len(u.P))
	for k := range u.P {
		ks = append(ks, k)
	}
	sort.Ints(ks)
	return ks
}

func (u *Union) isKind(k int) Term {
	if k != KNil {
		if _, ok := u.P[k]; !ok {
			return mkBool(false)
		}
	}
	return mkEq(u.Tag, mkBV(uint64(k), 8))
}

// ---- deep copy (heap objects are mutable containers; everything else is immutable) ----

func deep(v Value) Value {
	switch x := v.(type) {
	case StructV:
		o := make(StructV, len(x))
		for i := range x {
			o[i] = deep(x[i])
		}
		return o
	case ArrayV:
		o := make(ArrayV, len(x))
		for i := range x {
			o[i] = deep(x[i])
		}
		return o
	case *MapObj:
		return &MapObj{keys: append([]Value{}, x.keys...), vals: append([]Value{}, x.vals...)}
	case *IterV:
		c := *x
		return &c
	}
	return v
}

// ---- zero values ----------------------------------------------------------------------

func intWidth(b *types.Basic) (int, bool) {
	switch b.Kind() {
	case types.Int8:
		return 8, true
	case types.Uint8:
		return 8, false
	case types.Int16:
		return 16, true
	case types.Uint16:
		return 16, false
	case types.Int32, types.UntypedRune:
		return 32, true
	case types.Uint32:
		return 32, false
	case types.Int, types.Int64, types.UntypedInt:
		return 64, true
	case types.Uint, types.Uint64, types.Uintptr:
		return 64, false
	}
	return 0, false
}

func zero(t types.Type) Value {
	switch x := t.Underlying().(type) {
	case *types.Basic:
		switch {
		case x.Info()&types.IsBoolean != 0:
			return mkBool(false)
		case x.Info()&types.IsString != 0:
			return StrV{}
		case x.Info()&types.IsFloat != 0:
			return mkFP(0)
		case x.Info()&types.IsInteger != 0:
			w, _ := intWidth(x)
			return mkBV(0, w)
		case x.Kind() == types.UnsafePointer:
			return Ptr{}
		}
	case *types.Pointer:
		return Ptr{}
	case *types.Interface:
		return nilUnion()
	case *types.Struct:
		s := make(StructV, x.NumFields())
		for i := range s {
			s[i] = zero(x.Field(i).Type())
		}
		return s
	case *types.Array:
		a := make(ArrayV, x.Len())
		for i := range a {
			a[i] = zero(x.Elem())
		}
		return a
	case *types.Slice:
		return SliceV{}
	case *types.Map:
		return MapV{}
	case *types.Signature:
		return FuncV{}
	case *types.Chan:
		return Ptr{}
	case *types.Tuple:
		tu := make(Tuple, x.Len())
		for i := range tu {
			tu[i] = zero(x.At(i).Type())
		}
		return tu
	}
	panic(engineErr("zero value of " + t.String()))
}

// engineErr is raised (as a panic) for anything the engine cannot model; the run is then
// inconclusive, never a pass.
type engineErr string

func (e engineErr) Error() string { return string(e) }

func isInterface(t types.Type) bool {
	_, ok := t.Underlying().(*types.Interface)
	return ok
}
