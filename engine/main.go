package main

import (
	"encoding/json"
	"flag"
	"fmt"
	"os"
	"path/filepath"
	"runtime"
	"sort"
	"strconv"
	"strings"
	"time"

	"golang.org/x/tools/go/packages"
	"golang.org/x/tools/go/ssa"
	"golang.org/x/tools/go/ssa/ssautil"
)

type Config struct {
	Repo             string
	Module           string
	Verif            string
	Z3               string
	QueryTimeoutS    int
	ModelsPerSite    int
	MaxCallDepth     int
	Workers          int
	Verbose          bool
	NoSummary        bool
	AllPerms         bool
	DumpDir          string
	DumpMs           int
	Seed             int
	PanicsEverywhere bool
	BudgetS          int
}

var gCfg = Config{Repo: "/repo", Module: "github.com/ah-naf/borno", Verif: "/verif", Z3: "z3", QueryTimeoutS: 60, ModelsPerSite: 2, MaxCallDepth: 400, Workers: runtime.NumCPU(), PanicsEverywhere: true}

// harnessOverlay instantiates the harness sources of /verif/harness into the repo's packages
// (in memory only; nothing is written into the repo).
func harnessOverlay(native bool) (map[string][]byte, error) {
	ov := map[string][]byte{}
	root := filepath.Join(gCfg.Verif, "harness")
	tmplName := "decl.go.tmpl"
	if native {
		tmplName = "native.go.tmpl"
	}
	tmpl, err := os.ReadFile(filepath.Join(root, "api", tmplName))
	if err != nil {
		return nil, err
	}
	ents, err := os.ReadDir(root)
	if err != nil {
		return nil, err
	}
	for _, d := range ents {
		if !d.IsDir() || d.Name() == "api" {
			continue
		}
		pkg := d.Name()
		dir := filepath.Join(gCfg.Repo, pkg)
		goPkg := pkg
		if pkg == "main" {
			dir = gCfg.Repo
		}
		files, _ := filepath.Glob(filepath.Join(root, pkg, "*.go"))
		if len(files) == 0 {
			continue
		}
		for _, f := range files {
			b, err := os.ReadFile(f)
			if err != nil {
				return nil, err
			}
			ov[filepath.Join(dir, "zz_verif_"+filepath.Base(f))] = b
		}
		ov[filepath.Join(dir, "zz_verif_api.go")] = []byte(strings.ReplaceAll(string(tmpl), "PKGNAME", goPkg))
		if pkg == "interpreter" {
			ov[filepath.Join(dir, "zz_verif_examples.go")] = []byte(exampleSources())
		}
	}
	return ov, nil
}

func loadEngine() (*Engine, error) {
	ov, err := harnessOverlay(false)
	if err != nil {
		return nil, err
	}
	cfg := &packages.Config{Mode: packages.LoadAllSyntax, Dir: gCfg.Repo,
		Env:     append(os.Environ(), "GOFLAGS=-mod=readonly", "GOPROXY=off", "GOSUMDB=off", "GOTOOLCHAIN=local"),
		Overlay: ov}
	pkgs, err := packages.Load(cfg, "./...")
	if err != nil {
		return nil, err
	}
	if n := packages.PrintErrors(pkgs); n > 0 {
		return nil, fmt.Errorf("%d package errors while loading %s with the harness overlay", n, gCfg.Repo)
	}
	prog, spkgs := ssautil.AllPackages(pkgs, ssa.InstantiateGenerics)
	prog.Build()
	e := &Engine{prog: prog, pkgs: map[string]*ssa.Package{}, globals: map[*ssa.Global]int{}, sizes: sizesFor()}
	var repoPkgs []*ssa.Package
	for _, p := range spkgs {
		if p == nil {
			continue
		}
		if strings.HasPrefix(p.Pkg.Path(), gCfg.Module) {
			e.pkgs[p.Pkg.Name()] = p
			repoPkgs = append(repoPkgs, p)
		}
	}
	// initialise in dependency order: fewer imports first is not enough; use import graph
	sort.Slice(repoPkgs, func(i, j int) bool { return repoPkgs[i].Pkg.Path() < repoPkgs[j].Pkg.Path() })
	order := topoPkgs(repoPkgs)
	if err := e.runInits(order); err != nil {
		return nil, err
	}
	return e, nil
}

func topoPkgs(ps []*ssa.Package) []*ssa.Package {
	byPath := map[string]*ssa.Package{}
	for _, p := range ps {
		byPath[p.Pkg.Path()] = p
	}
	var out []*ssa.Package
	seen := map[string]bool{}
	var visit func(p *ssa.Package)
	visit = func(p *ssa.Package) {
		if seen[p.Pkg.Path()] {
			return
		}
		seen[p.Pkg.Path()] = true
		for _, imp := range p.Pkg.Imports() {
			if q, ok := byPath[imp.Path()]; ok {
				visit(q)
			}
		}
		out = append(out, p)
	}
	for _, p := range ps {
		visit(p)
	}
	return out
}

type JobSpec struct {
	Pkg  string  `json:"pkg"`
	Func string  `json:"func"`
	Args []int64 `json:"args,omitempty"`
	Opts JobOpts `json:"opts,omitempty"`
}

func (e *Engine) mkJob(s JobSpec) (*Job, error) {
	p := e.pkgs[s.Pkg]
	if p == nil {
		return nil, fmt.Errorf("no package %s", s.Pkg)
	}
	fn := p.Func(s.Func)
	if fn == nil {
		return nil, fmt.Errorf("no harness function %s.%s", s.Pkg, s.Func)
	}
	name := s.Pkg + "." + s.Func
	if len(s.Args) > 0 {
		as := make([]string, len(s.Args))
		for i, a := range s.Args {
			as[i] = fmt.Sprint(a)
		}
		name += "(" + strings.Join(as, ",") + ")"
	}
	return &Job{Name: name, Pkg: s.Pkg, Func: s.Func, Args: s.Args, Opts: s.Opts, fn: fn,
		Asserts: map[string]*AssertStat{}, Reached: map[string]int{}, violIdx: map[string]*Violation{},
		Inconclusive: map[string]int{}, Funcs: map[string]int64{}, PanicSites: map[string]int{}}, nil
}

func printJob(j *Job) {
	fmt.Printf("== %s: paths=%d cut=%d forks=%d instrs=%d depth=%d panic-checks=%d\n", j.Name, j.Paths, j.Cut, j.Forks, j.Instrs, j.MaxDepth, j.PanicChecks)
	ids := make([]string, 0, len(j.Asserts))
	for id := range j.Asserts {
		ids = append(ids, id)
	}
	sort.Strings(ids)
	for _, id := range ids {
		a := j.Asserts[id]
		fmt.Printf("   assert %-40s reached=%-6d folded=%-6d unsat=%-6d SAT=%d\n", id, a.Reached, a.Folded, a.Unsat, a.Sat)
	}
	var rs []string
	for k, n := range j.Reached {
		rs = append(rs, fmt.Sprintf("%s=%d", k, n))
	}
	sort.Strings(rs)
	if len(rs) > 0 {
		fmt.Printf("   reach: %s\n", strings.Join(rs, " "))
	}
	for _, v := range j.Violations {
		b, _ := json.Marshal(v.Vector)
		fmt.Printf("   VIOL %s [%s] x%d vector=%s trace=%v\n", v.ID, v.Kind, v.Count, b, v.Trace)
	}
	for m, n := range j.Inconclusive {
		fmt.Printf("   INCONCLUSIVE x%d: %s\n", n, m)
	}
}

func main() {
	if len(os.Args) < 2 {
		fmt.Fprintln(os.Stderr, "usage: bsym run|check|replay …")
		os.Exit(2)
	}
	cmd := os.Args[1]
	fs := flag.NewFlagSet(cmd, flag.ExitOnError)
	fs.StringVar(&gCfg.Repo, "repo", gCfg.Repo, "repository under test")
	fs.StringVar(&gCfg.Verif, "verif", gCfg.Verif, "verification directory")
	fs.IntVar(&gCfg.Workers, "workers", gCfg.Workers, "parallel workers")
	fs.BoolVar(&gCfg.Verbose, "v", false, "verbose")
	fs.BoolVar(&gCfg.NoSummary, "nosummary", false, "disable pure-callee summarisation")
	fs.BoolVar(&gCfg.AllPerms, "allperms", false, "map iteration: all permutations instead of rotations")
	fs.StringVar(&gCfg.DumpDir, "dump", "", "directory for slow/inconclusive queries")
	fs.IntVar(&gCfg.DumpMs, "dumpms", 2000, "dump queries slower than this")
	fs.IntVar(&gCfg.QueryTimeoutS, "qtimeout", gCfg.QueryTimeoutS, "per-query timeout (s)")
	fs.IntVar(&gCfg.Seed, "seed", 0, "seed")
	fs.IntVar(&gCfg.BudgetS, "budget", 0, "exploration time budget in seconds (0: 1200 quick, 10800 thorough)")
	pkg := fs.String("pkg", "", "package (run)")
	fn := fs.String("func", "", "harness function (run)")
	argsS := fs.String("args", "", "comma separated integer arguments (run)")
	fuelF := fs.Int("fuel", 0, "loop fuel for the job (run)")
	maxInstrF := fs.Int64("maxinstrs", 0, "instruction bound per path for the job (run)")
	mapOrdersF := fs.Int("maporders", 0, "rotations explored per map range for the job (run)")
	callDepthF := fs.Int("calldepth", 0, "engine call-depth bound for the job (run)")
	prop := fs.String("prop", "", "property id (check)")
	tier := fs.String("tier", "quick", "quick|thorough")
	noReplay := fs.Bool("noreplay", false, "skip native replay")
	fs.Parse(os.Args[2:])
	switch cmd {
	case "run":
		defer replayCleanup()
		t0 := time.Now()
		e, err := loadEngine()
		if err != nil {
			fmt.Fprintln(os.Stderr, "load:", err)
			os.Exit(2)
		}
		fmt.Printf("load+init: %v\n", time.Since(t0).Round(time.Millisecond))
		spec := JobSpec{Pkg: *pkg, Func: *fn}
		spec.Opts.LoopFuel = *fuelF
		spec.Opts.MaxInstrs = int(*maxInstrF)
		spec.Opts.MapOrders = *mapOrdersF
		spec.Opts.MaxCallDepth = *callDepthF
		if *argsS != "" {
			for _, a := range strings.Split(*argsS, ",") {
				var v int64
				fmt.Sscan(a, &v)
				spec.Args = append(spec.Args, v)
			}
		}
		j, err := e.mkJob(spec)
		if err != nil {
			fmt.Fprintln(os.Stderr, err)
			os.Exit(2)
		}
		t1 := time.Now()
		e.runJobs([]*Job{j}, gCfg.Workers)
		printJob(j)
		fmt.Printf("wall=%v queries=%d cachehits=%d sat=%d unsat=%d unknown=%d errors=%d cvc5=%d solver=%v slowest=%dms\n", time.Since(t1).Round(time.Millisecond),
			gStats.Queries, gStats.CacheHits, gStats.Sat, gStats.Unsat, gStats.Unknown, gStats.Errors, gStats.Cvc5Queries, time.Duration(gStats.Nanos).Round(time.Millisecond), gStats.SlowestMs)
		if !*noReplay {
			for _, v := range j.Violations {
				replayViolation(e, j, v)
				fmt.Printf("   replay %s: reproduced=%v %s\n", v.ID, v.Reproduced, firstLine(v.ReplayOut))
			}
		}
	case "check":
		os.Exit(runCheck(*prop, *tier, *noReplay))
	case "replay":
		os.Exit(runReplayFile(fs.Arg(0)))
	default:
		fmt.Fprintln(os.Stderr, "unknown command", cmd)
		os.Exit(2)
	}
}

func firstLine(s string) string {
	if i := strings.IndexByte(s, '\n'); i >= 0 {
		return s[:i]
	}
	return s
}

// exampleSources: the repository's shipped example scripts (those that neither read input
// nor call the clock) as a Go table, regenerated from the working tree on every run; used by
// the translator-validation harness that runs them from SSA and natively.
func exampleSources() string {
	var b strings.Builder
	b.WriteString("package interpreter\n\nvar verifExamples = []string{\n")
	files, _ := filepath.Glob(filepath.Join(gCfg.Repo, "example", "*.bn"))
	sort.Strings(files)
	for _, f := range files {
		src, err := os.ReadFile(f)
		if err != nil {
			continue
		}
		text := string(src)
		if strings.Contains(text, "\u0995\u09cd\u09b2\u0995") || strings.Contains(text, "\u0987\u09a8\u09aa\u09c1\u099f") {
			continue // clock / input
		}
		fmt.Fprintf(&b, "\t%s,\n", strconv.QuoteToASCII(text))
	}
	b.WriteString("}\n")
	return b.String()
}
