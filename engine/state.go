package main

import (
	"fmt"
	"go/types"

	"golang.org/x/tools/go/ssa"
)

type Frame struct {
	fn        *ssa.Function
	blk, prev *ssa.BasicBlock
	idx       int
	env       map[ssa.Value]Value
	retTo     ssa.Value
	visits    map[int]int // block index -> times entered (loop fuel)
	forks     map[ssa.Instruction]int
	defers    []deferred // calls registered by defer statements, run (last first) at RunDefers
}

type deferred struct {
	fn       *ssa.Function
	args     []Value
	bindings []Value
}

const (
	EvStdout = 1
	EvStderr = 2
	EvProbe  = 3
	EvExit   = 4
	EvUser   = 5
)

type Event struct {
	Kind int
	A    Term // probe id / exit status / user arg (BV64)
	B    Term // second arg: stderr line number, probe invocation index
	Text StrV
	Fmt  string
}

type NondetRec struct {
	Kind string // bool int int64 float rune choice maporder
	Sym  string // symbol name ("" for concrete choices)
	Val  int64  // concrete choices
}

type State struct {
	frames   []*Frame
	pc       []Term
	pcSet    map[string]bool
	heap     map[int]Value
	nobj     int
	nsym     int
	trace    []Event
	nondets  []NondetRec
	builders map[int]StrV
	instrs   int
	stdinPos int
	exited   bool
	procM    *procModel
	opts     map[string]bool
	nowMs    Term            // the instant time.Now reports on this path (one instant per path: the clock is frozen)
	tzHours  Term            // offset of time.Local from UTC in hours (a symbolic whole number in [-12, 14])
	durMs    map[string]Term // durations made by time.Since/Sub: their length in milliseconds, by term text
}

func newState() *State {
	return &State{heap: map[int]Value{}, pcSet: map[string]bool{}, builders: map[int]StrV{}}
}

func (s *State) alloc(v Value) int { s.nobj++; s.heap[s.nobj] = v; return s.nobj }

func (s *State) clone() *State {
	n := &State{
		pc:       append(make([]Term, 0, len(s.pc)+8), s.pc...),
		pcSet:    make(map[string]bool, len(s.pcSet)+8),
		heap:     make(map[int]Value, len(s.heap)+16),
		nobj:     s.nobj,
		nsym:     s.nsym,
		trace:    append([]Event{}, s.trace...),
		nondets:  append([]NondetRec{}, s.nondets...),
		builders: make(map[int]StrV, len(s.builders)),
		instrs:   s.instrs,
		stdinPos: s.stdinPos,
		nowMs:    s.nowMs,
		tzHours:  s.tzHours,
	}
	if s.durMs != nil {
		n.durMs = map[string]Term{}
		for k, v := range s.durMs {
			n.durMs[k] = v
		}
	}
	if s.procM != nil {
		c := *s.procM
		n.procM = &c
	}
	if s.opts != nil {
		n.opts = map[string]bool{}
		for k, v := range s.opts {
			n.opts[k] = v
		}
	}
	for k := range s.pcSet {
		n.pcSet[k] = true
	}
	for k, v := range s.builders {
		n.builders[k] = v
	}
	for id, o := range s.heap {
		n.heap[id] = deep(o)
	}
	for _, f := range s.frames {
		g := *f
		g.env = make(map[ssa.Value]Value, len(f.env)+8)
		for k, v := range f.env {
			g.env[k] = v
		}
		g.visits = make(map[int]int, len(f.visits))
		for k, v := range f.visits {
			g.visits[k] = v
		}
		g.forks = make(map[ssa.Instruction]int, len(f.forks))
		for k, v := range f.forks {
			g.forks[k] = v
		}
		n.frames = append(n.frames, &g)
	}
	return n
}

func (s *State) assume(c Term) {
	if c.isTrue() {
		return
	}
	if s.pcSet[c.S] {
		return
	}
	s.pc = append(s.pc, c)
	s.pcSet[c.S] = true
}

func (s *State) fresh(sort Sort) Term {
	s.nsym++
	return mkSym(fmt.Sprintf("%s%d", symPrefix(sort), s.nsym), sort)
}

func (s *State) top() *Frame { return s.frames[len(s.frames)-1] }

// ---- memory ------------------------------------------------------------------------

func (s *State) load(p Ptr) Value {
	v, ok := s.heap[p.id]
	if !ok {
		panic(engineErr(fmt.Sprintf("load from unknown object %d", p.id)))
	}
	for _, i := range p.path {
		switch x := v.(type) {
		case StructV:
			v = x[i]
		case ArrayV:
			if i >= len(x) {
				panic(engineErr("load path out of range"))
			}
			v = x[i]
		default:
			panic(engineErr(fmt.Sprintf("bad load path into %T", v)))
		}
	}
	return deep(v)
}

func (s *State) store(p Ptr, nv Value) {
	nv = deep(nv)
	if len(p.path) == 0 {
		s.heap[p.id] = nv
		return
	}
	v := s.heap[p.id]
	for _, i := range p.path[:len(p.path)-1] {
		switch x := v.(type) {
		case StructV:
			v = x[i]
		case ArrayV:
			v = x[i]
		default:
			panic(engineErr(fmt.Sprintf("bad store path into %T", v)))
		}
	}
	last := p.path[len(p.path)-1]
	switch x := v.(type) {
	case StructV:
		x[last] = nv
	case ArrayV:
		x[last] = nv
	default:
		panic(engineErr(fmt.Sprintf("bad store target %T", v)))
	}
}

func (s *State) sliceElems(sl SliceV) []Value {
	if sl.id == 0 || sl.n == 0 {
		return nil
	}
	arr := s.heap[sl.id].(ArrayV)
	return arr[sl.off : sl.off+sl.n]
}

func (s *State) newSlice(elems []Value, cap int) SliceV {
	if cap < len(elems) {
		cap = len(elems)
	}
	arr := make(ArrayV, cap)
	copy(arr, elems)
	return SliceV{id: s.alloc(arr), off: 0, n: len(elems), cap: cap}
}

func fillZero(arr ArrayV, from int, t types.Type) {
	for i := from; i < len(arr); i++ {
		arr[i] = zero(t)
	}
}
