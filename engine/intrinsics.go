package main

import (
	"bytes"
	"errors"
	"fmt"
	"go/token"
	"go/types"
	"math"
	"sort"
	"strconv"
	"strings"
	"sync"
	"time"
	"unicode"
	"unicode/utf8"

	"golang.org/x/text/unicode/norm"
	"golang.org/x/tools/go/ssa"
)

// ErrV is the payload of an error value created by the fmt.Errorf / errors.New stubs.
type ErrV struct {
	Msg StrV
	id  int
	// Range: for an error made by the ParseFloat stub, whether it is a range error (Bool term);
	// the zero Term otherwise
	Range Term
}

// ReflVal is the result of the reflect.ValueOf stub (only Pointer() is modelled).
type ReflVal struct{ u *Union }

var synthRType = types.NewNamed(types.NewTypeName(token.NoPos, nil, "verifRType", nil), types.NewStruct(nil, nil), nil)

var synthErrType = types.NewNamed(types.NewTypeName(token.NoPos, nil, "verifErr", nil), types.NewStruct(nil, nil), nil)

func (w *Worker) mkErr(st *State, msg StrV) *Union {
	st.nobj++
	return mkUnion(synthErrType, ErrV{Msg: msg, id: st.nobj})
}

// io.EOF is one object: the reader stubs return it, and the code may compare against it.
func eofUnion() *Union { return mkUnion(synthErrType, ErrV{Msg: strLit("EOF"), id: -1}) }

func atom(t Term) StrV { return StrV{[]Seg{{K: SegAtom, T: t}}} }

func (w *Worker) loadExtern(st *State, e Extern, t types.Type) Value {
	switch e.name {
	case "&os.Stderr":
		return Extern{"os.Stderr"}
	case "&os.Stdout":
		return Extern{"os.Stdout"}
	case "&os.Stdin":
		return Extern{"os.Stdin"}
	case "&os.Args":
		return w.osArgs(st)
	case "&io.EOF":
		return eofUnion()
	case "&time.Local":
		return Extern{"time.Local"}
	case "&time.UTC":
		return Extern{"time.UTC"}
	case "&strconv.ErrRange":
		return mkUnion(synthErrType, ErrV{Msg: strLit("value out of range"), id: -2})
	case "&strconv.ErrSyntax":
		return mkUnion(synthErrType, ErrV{Msg: strLit("invalid syntax"), id: -3})
	}
	panic(engineErr("load of foreign global " + e.name))
}

// ---- nondeterministic inputs ---------------------------------------------------------------

func (w *Worker) nondet(st *State, kind string, s Sort) Term {
	t := st.fresh(s)
	st.nondets = append(st.nondets, NondetRec{Kind: kind, Sym: t.S})
	return t
}

func validRune(c Term) Term {
	return mkAnd(bvCmp("bvsge", c, mkBV(0, 32)), bvCmp("bvsle", c, mkBV(0x10FFFF, 32)),
		mkOr(bvCmp("bvslt", c, mkBV(0xD800, 32)), bvCmp("bvsgt", c, mkBV(0xDFFF, 32))))
}

// ---- formatting ----------------------------------------------------------------------------

// fmtValue renders a value the way fmt's %v does (A-fmt).
func (w *Worker) fmtValue(st *State, t types.Type, v Value, verb byte, depth int) StrV {
	if depth == 0 {
		w.fmtActive = map[int]bool{}
	}
	if depth > 12 {
		panic(engineErr("fmt nesting too deep"))
	}
	// fmt follows slices and maps recursively without cycle detection: a value that contains
	// itself makes it recurse until the Go runtime aborts with "fatal error: stack overflow"
	switch c := v.(type) {
	case SliceV:
		if c.id != 0 && c.n > 0 {
			if w.fmtActive[c.id] {
				w.obligation(st, "fmt-recursion-on-self-containing-value(stack-overflow)", token.NoPos, mkBool(true))
			}
			w.fmtActive[c.id] = true
			defer delete(w.fmtActive, c.id)
		}
	case MapV:
		if c.id != 0 {
			if w.fmtActive[c.id] {
				w.obligation(st, "fmt-recursion-on-self-containing-value(stack-overflow)", token.NoPos, mkBool(true))
			}
			w.fmtActive[c.id] = true
			defer delete(w.fmtActive, c.id)
		}
	}
	switch x := v.(type) {
	case *Union:
		if k, ok := x.constKind(); ok {
			if k == KNil {
				if verb == 'T' {
					return strLit("<nil>")
				}
				return strLit("<nil>")
			}
			if verb == 'T' {
				return strLit(kinds.typ(k).String())
			}
			return w.fmtValue(st, kinds.typ(k), x.P[k], verb, depth)
		}
		// symbolic tag: if the path constraint leaves only one kind, it is that kind
		if one := w.resolveUnion(st, x); one != x {
			return w.fmtValue(st, t, one, verb, depth)
		}
		// otherwise build a Txt ite over the feasible renderings
		ks := x.kindsSorted()
		var acc *Term
		for i := len(ks) - 1; i >= 0; i-- {
			k := ks[i]
			var s StrV
			if verb == 'T' {
				s = strLit(kinds.typ(k).String())
			} else {
				s = w.fmtValue(st, kinds.typ(k), x.P[k], verb, depth)
			}
			tt := s.toTxt()
			if acc == nil {
				acc = &tt
			} else {
				m := mkIte(x.isKind(k), tt, *acc)
				acc = &m
			}
		}
		nilT := strLit("<nil>").toTxt()
		if acc == nil {
			return strLit("<nil>")
		}
		return atom(mkIte(x.isKind(KNil), nilT, *acc))
	}
	if isSynthErr(t) {
		return v.(ErrV).Msg
	}
	// a value with String()/Error() is rendered through its method — only pointer receivers
	// and named struct types in the repo are used that way; handled by callers for top level.
	switch u := t.Underlying().(type) {
	case *types.Basic:
		switch {
		case u.Info()&types.IsString != 0:
			s := v.(StrV)
			if verb == 'q' {
				if c, ok := s.concrete(); ok {
					return strLit(strconv.Quote(c))
				}
				return atom(app(STxt, "fmtQ", s.toTxt()))
			}
			return s
		case u.Info()&types.IsBoolean != 0:
			b := v.(Term)
			if bv, ok := b.boolVal(); ok {
				return strLit(strconv.FormatBool(bv))
			}
			// decided by the path constraint?
			if can, cannot := w.branch(st, b); !cannot {
				return strLit("true")
			} else if !can {
				return strLit("false")
			}
			return atom(mkIte(b, strLit("true").toTxt(), strLit("false").toTxt()))
		case u.Info()&types.IsFloat != 0:
			f := v.(Term)
			if fv, ok := f.fpVal(); ok {
				return strLit(fmt.Sprintf("%v", fv))
			}
			return atom(app(STxt, "fmtF", f))
		case u.Info()&types.IsInteger != 0:
			i := v.(Term)
			_, signed := intWidth(u)
			if iv, ok := i.intVal(); ok {
				if signed {
					return strLit(strconv.FormatInt(iv, 10))
				}
				uv, _ := i.bvVal()
				return strLit(strconv.FormatUint(uv, 10))
			}
			i64 := bvResize(i, 64, signed)
			fi := app(STxt, "fmtI", i64)
			if signed {
				// documented fmt facts, instantiated at this term (A-fmt): integers of magnitude
				// below 10^6 print identically as int and as float64; from 10^6 on the float64
				// rendering carries an exponent and differs
				small := mkAnd(bvCmp("bvslt", i64, mkBV(1000000, 64)), bvCmp("bvsgt", i64, mkBV(^uint64(999999), 64)))
				ff := app(STxt, "fmtF", int64ToFP(i64))
				st.assume(mkIte(small, mkEq(fi, ff), mkNot(mkEq(fi, ff))))
			}
			return atom(fi)
		}
	case *types.Slice:
		sl := v.(SliceV)
		if verb == 's' || verb == 'v' || verb == 'd' {
			out := strLit("[")
			for i, e := range st.sliceElems(sl) {
				if i > 0 {
					out = strCat(out, strLit(" "))
				}
				out = strCat(out, w.fmtValue(st, u.Elem(), e, verb, depth+1))
			}
			return strCat(out, strLit("]"))
		}
	case *types.Map:
		m := v.(MapV)
		mo := w.mapObj(st, m)
		// fmt prints maps in sorted key order; keys must be concrete to sort them
		type kv struct {
			k string
			v Value
		}
		var kvs []kv
		for i, k := range mo.keys {
			ks, ok := k.(StrV)
			if !ok {
				panic(engineErr("fmt of map with non-string keys"))
			}
			c, ok := ks.concrete()
			if !ok {
				panic(engineErr("fmt of map with symbolic keys"))
			}
			kvs = append(kvs, kv{c, mo.vals[i]})
		}
		for i := range kvs {
			for j := i + 1; j < len(kvs); j++ {
				if kvs[j].k < kvs[i].k {
					kvs[i], kvs[j] = kvs[j], kvs[i]
				}
			}
		}
		out := strLit("map[")
		for i, e := range kvs {
			if i > 0 {
				out = strCat(out, strLit(" "))
			}
			out = strCat(out, strLit(e.k+":"))
			out = strCat(out, w.fmtValue(st, u.Elem(), e.v, verb, depth+1))
		}
		return strCat(out, strLit("]"))
	case *types.Interface:
		return w.fmtValue(st, t, v, verb, depth)
	case *types.Pointer, *types.Struct:
		// Stringer implementations are resolved by fmtArg before reaching here
		return atom(app(STxt, "fmtI", mkBV(uint64(kinds.of(t))<<32, 64)))
	}
	panic(engineErr(fmt.Sprintf("fmt %%%c of %s", verb, t)))
}

// stringerMethod finds String()/Error() on the dynamic type.
func (w *Worker) stringerMethod(t types.Type) *ssa.Function {
	for _, name := range []string{"Error", "String"} {
		ms := w.e.prog.MethodSets.MethodSet(t)
		for i := 0; i < ms.Len(); i++ {
			sel := ms.At(i)
			if sel.Obj().Name() == name {
				sig := sel.Type().(*types.Signature)
				if sig.Params().Len() == 0 && sig.Results().Len() == 1 {
					if b, ok := sig.Results().At(0).Type().Underlying().(*types.Basic); ok && b.Kind() == types.String {
						return w.e.prog.MethodValue(sel)
					}
				}
			}
		}
	}
	return nil
}

// pendingFmt: formatting that needs Stringer calls is done by running those methods first.
// To keep the executor simple, String() methods are executed eagerly through a nested run of
// the worker on a scratch frame stack.
func (w *Worker) callSync(st *State, fn *ssa.Function, args []Value, bindings ...Value) Value {
	saved := st.frames
	var result Value
	done := false
	sentinel := &Frame{fn: fn, blk: fn.Blocks[0], env: map[ssa.Value]Value{}, visits: map[int]int{}, forks: map[ssa.Instruction]int{}}
	for i, p := range fn.Params {
		sentinel.env[p] = args[i]
	}
	for i, fv := range fn.FreeVars {
		sentinel.env[fv] = bindings[i]
	}
	st.frames = []*Frame{sentinel}
	func() {
		defer func() {
			if r := recover(); r != nil {
				if pe, ok := r.(pathEnd); ok && pe.why == "end" {
					done = true
					return
				}
				st.frames = saved
				panic(r)
			}
		}()
		for {
			f := st.top()
			ins := f.blk.Instrs[f.idx]
			f.idx++
			st.instrs++
			if ret, ok := ins.(*ssa.Return); ok && len(st.frames) == 1 {
				if len(ret.Results) == 1 {
					result = w.get(st, f, ret.Results[0])
				} else if len(ret.Results) > 1 {
					tu := make(Tuple, len(ret.Results))
					for i, r := range ret.Results {
						tu[i] = w.get(st, f, r)
					}
					result = tu
				}
				done = true
				return
			}
			if _, ok := ins.(*ssa.If); ok {
				// forks inside a synchronous call would lose the outer stack; only concrete
				// branches are allowed here
				c := w.get(st, f, ins.(*ssa.If).Cond).(Term)
				if !c.IsLit() {
					panic(engineErr("symbolic branch inside String() method " + fn.String()))
				}
			}
			w.step(st, f, ins)
		}
	}()
	st.frames = saved
	_ = done
	return result
}

func (w *Worker) fmtArg(st *State, a *Union, verb byte) StrV {
	a = w.resolveUnion(st, a)
	if k, ok := a.constKind(); ok && k != KNil && verb != 'T' && verb != 'd' {
		t := kinds.typ(k)
		if !isSynthErr(t) {
			if m := w.stringerMethod(t); m != nil && w.inRepo(m) {
				r := w.callSync(st, m, []Value{a.P[k]})
				return r.(StrV)
			}
		}
	}
	return w.fmtValue(st, nil, a, verb, 0)
}

// sprintf implements the subset of format strings the repo uses.
func (w *Worker) sprintf(st *State, format string, args []Value) StrV {
	out, _ := w.sprintfSegs(st, strLit(format).Segs, args)
	return out
}

// sprintfSegs formats with a format string given as segments. Literal segments are scanned for
// directives; symbolic segments are copied through (the caller has established that they hold
// no '%'). Flags and widths are skipped; a verb outside the modelled set — which is what a
// '%' inside a message that was never meant to be a format produces — yields an opaque piece of
// text and consumes its argument, exactly as fmt does ("%!x(int=4)"); the native replay
// supplies the exact characters. The second result is the argument consumed by the first %d
// (the repo's diagnostics carry their line number that way), or nil.
func (w *Worker) sprintfSegs(st *State, segs []Seg, args []Value) (StrV, *Union) {
	out := StrV{}
	ai := 0
	var lineArg *Union
	for si := 0; si < len(segs); si++ {
		if segs[si].K != SegLit {
			out = strCat(out, StrV{[]Seg{segs[si]}})
			continue
		}
		format := segs[si].Lit
		for i := 0; i < len(format); i++ {
			c := format[i]
			if c != '%' {
				j := i
				for j < len(format) && format[j] != '%' {
					j++
				}
				out = strCat(out, strLit(format[i:j]))
				i = j - 1
				continue
			}
			i++
			plain := true
			for i < len(format) && strings.IndexByte("#0+- .123456789", format[i]) >= 0 {
				if format[i] != '#' {
					plain = false
				}
				i++
			}
			if i >= len(format) {
				if si+1 < len(segs) {
					panic(engineErr("format directive whose verb is symbolic"))
				}
				out = strCat(out, strLit("%!(NOVERB)"))
				break
			}
			verb := format[i]
			if verb == '%' && plain {
				out = strCat(out, strLit("%"))
				continue
			}
			if verb >= 0x80 {
				// a multi-byte verb: skip its continuation bytes
				for i+1 < len(format) && format[i+1]&0xC0 == 0x80 {
					i++
				}
			}
			if ai >= len(args) {
				if verb < 0x80 {
					out = strCat(out, strLit("%!"+string(verb)+"(MISSING)"))
				} else {
					out = strCat(out, StrV{[]Seg{{K: SegAtom, T: st.fresh(STxt)}}})
				}
				continue
			}
			a := args[ai].(*Union)
			ai++
			switch {
			case plain && (verb == 'v' || verb == 's' || verb == 'd' || verb == 'q' || verb == 'T'):
				if verb == 'd' && lineArg == nil {
					lineArg = a
				}
				out = strCat(out, w.fmtArg(st, a, verb))
			default:
				// bad verb or flags the model does not render: "%!verb(type=value)" / padded text
				out = strCat(out, StrV{[]Seg{{K: SegAtom, T: st.fresh(STxt)}}})
			}
		}
	}
	if ai < len(args) {
		out = strCat(out, strLit("%!(EXTRA …)"))
	}
	return out, lineArg
}

// concreteBytes: the bytes of a []byte value all of whose elements are constants.
func concreteBytes(st *State, v Value) []byte {
	sl := v.(SliceV)
	if sl.id == 0 || sl.n == 0 {
		return nil
	}
	elems := st.sliceElems(sl)
	out := make([]byte, len(elems))
	for i, e := range elems {
		b, ok := e.(Term).bvVal()
		if !ok {
			panic(engineErr("symbolic byte in a byte slice handed to a library function"))
		}
		out[i] = byte(b)
	}
	return out
}

// writeTo: text written to os.Stdout / os.Stderr (an event) or to a bufio.Writer over one of
// them (kept in the writer until Flush).
func (w *Worker) writeTo(st *State, wr *Union, text StrV, fmtS string, line Term) {
	k, ok := wr.constKind()
	if !ok {
		panic(engineErr("write to a symbolic writer"))
	}
	switch dst := wr.P[k].(type) {
	case Extern:
		switch dst.name {
		case "os.Stderr":
			w.emit(st, EvStderr, text, fmtS, mkBV(0, 64), line)
		case "os.Stdout":
			w.emit(st, EvStdout, text, fmtS, mkBV(0, 64), line)
		default:
			panic(engineErr("write to unknown writer " + dst.name))
		}
	case Ptr:
		obj, isW := st.heap[dst.id].(StructV)
		if !isW || len(obj) != 2 {
			panic(engineErr("write to unknown writer"))
		}
		st.heap[dst.id] = StructV{obj[0], append(append(ArrayV{}, obj[1].(ArrayV)...), text)}
	default:
		panic(engineErr("write to unknown writer"))
	}
}

// isZeroValue: reflect.Value.IsZero for the payload of one dynamic type.
func (w *Worker) isZeroValue(st *State, v Value) Term {
	switch x := v.(type) {
	case Term:
		switch x.Sort {
		case SBool:
			return mkNot(x)
		case SFP:
			return Term{S: "(fp.isZero " + x.S + ")", Sort: SBool, Syms: x.Syms}
		case STxt:
			panic(engineErr("IsZero of opaque text"))
		default:
			w8 := map[Sort]int{SBV8: 8, SBV16: 16, SBV32: 32, SBV64: 64}[x.Sort]
			return mkEq(x, mkBV(0, w8))
		}
	case StrV:
		if len(x.Segs) == 0 {
			return mkBool(true)
		}
		for _, g := range x.Segs {
			if g.K != SegAtom {
				return mkBool(false) // holds at least one code point
			}
		}
		e, _ := strEq(x, StrV{})
		return e
	case SliceV:
		return mkBool(x.id == 0)
	case MapV:
		return mkBool(x.id == 0)
	case Ptr:
		return mkBool(x.id == 0)
	case FuncV:
		return mkBool(x.fn == nil)
	case StructV:
		cs := []Term{}
		for _, f := range x {
			if u, ok := f.(*Union); ok {
				cs = append(cs, u.isKind(KNil))
				continue
			}
			cs = append(cs, w.isZeroValue(st, f))
		}
		return mkAnd(cs...)
	case ArrayV:
		cs := []Term{}
		for _, f := range x {
			cs = append(cs, w.isZeroValue(st, f))
		}
		return mkAnd(cs...)
	}
	panic(engineErr(fmt.Sprintf("IsZero of %T", v)))
}

func (w *Worker) sprint(st *State, args []Value, ln bool) StrV {
	out := StrV{}
	for i, a := range args {
		if i > 0 && ln {
			out = strCat(out, strLit(" "))
		}
		out = strCat(out, w.fmtArg(st, a.(*Union), 'v'))
	}
	if ln {
		out = strCat(out, strLit("\n"))
	}
	return out
}

func (w *Worker) emit(st *State, kind int, text StrV, fmtS string, a, b Term) {
	st.trace = append(st.trace, Event{Kind: kind, Text: text, Fmt: fmtS, A: a, B: b})
}

// ---- the table ------------------------------------------------------------------------------

func constString(v Value) (string, bool) {
	s, ok := v.(StrV)
	if !ok {
		return "", false
	}
	return s.concrete()
}

func (w *Worker) intrinsic(st *State, f *Frame, x ssa.Value, callee *ssa.Function, args []Value) bool {
	full := callee.String()
	set := func(v Value) {
		if x != nil {
			f.env[x] = v
		}
	}
	name := callee.Name()
	if strings.HasPrefix(name, "verif") && w.inRepo(callee) && len(callee.Blocks) == 0 {
		w.harnessIntrinsic(st, f, x, name, args)
		return true
	}
	if st.opts["summarise-transliteration"] && full == gCfg.Module+"/utils.ConvertBanglaDigitsToASCII" {
		// S-translit (DESIGN §2.5): position-wise digit map, justified by VH_translit1/VH_translitN
		// which execute the real function; used only where its per-character forks (2^n) would
		// make long literals unreachable
		if rs, ok := args[0].(StrV).runeLevel(); ok {
			out := make([]Term, len(rs))
			for i, r := range rs {
				isB := mkAnd(bvCmp("bvsge", r, mkBV(0x9E6, 32)), bvCmp("bvsle", r, mkBV(0x9EF, 32)))
				out[i] = mkIte(isB, bvBin("bvsub", r, mkBV(0x9E6-0x30, 32), true), r)
			}
			set(strRunes(out))
			return true
		}
	}
	switch full {
	case "fmt.Println", "fmt.Print":
		text := w.sprint(st, st.sliceElems(args[0].(SliceV)), full == "fmt.Println")
		w.emit(st, EvStdout, text, "", mkBV(0, 64), mkBV(0, 64))
		set(Tuple{mkBV(0, 64), nilUnion()})
	case "fmt.Fprintln", "fmt.Fprint":
		text := w.sprint(st, st.sliceElems(args[1].(SliceV)), full == "fmt.Fprintln")
		w.writeTo(st, args[0].(*Union), text, "", mkBV(0, 64))
		set(Tuple{mkBV(0, 64), nilUnion()})
	case "(*os.File).WriteString", "(*os.File).Write":
		// writes to os.Stdout / os.Stderr (an Extern); each call is one event
		ext, isExt := args[0].(Extern)
		if !isExt {
			panic(engineErr("write to an unknown file"))
		}
		var text StrV
		if sv, ok := args[1].(StrV); ok {
			text = sv
		} else {
			text = strLit(string(concreteBytes(st, args[1])))
		}
		w.writeTo(st, &Union{Tag: mkBV(1, 8), P: map[int]Value{1: ext}}, text, "", mkBV(0, 64))
		set(Tuple{strByteLen(text), nilUnion()})
	case "unicode/utf8.RuneStart":
		b := args[0].(Term)
		set(mkNot(mkEq(bvBin("bvand", b, mkBV(0xC0, 8), false), mkBV(0x80, 8))))
	case "bufio.NewWriter":
		// a buffered writer over stdout/stderr: what is written stays in the object until Flush;
		// what is still there when the process ends is lost (the 4096-byte automatic flush is not
		// modelled: outputs in the harnesses are far below it)
		wr := args[0].(*Union)
		k, okk := wr.constKind()
		ext, isExt := wr.P[k].(Extern)
		if !okk || !isExt {
			panic(engineErr("bufio.NewWriter over an unknown writer"))
		}
		id := st.alloc(StructV{ext, ArrayV{}})
		set(Ptr{id: id})
	case "(*bufio.Writer).Flush":
		obj := st.heap[args[0].(Ptr).id].(StructV)
		kind := EvStderr
		if obj[0].(Extern).name == "os.Stdout" {
			kind = EvStdout
		}
		for _, t := range obj[1].(ArrayV) {
			w.emit(st, kind, t.(StrV), "", mkBV(0, 64), mkBV(0, 64))
		}
		st.heap[args[0].(Ptr).id] = StructV{obj[0], ArrayV{}}
		set(nilUnion())
	case "(*bufio.Writer).WriteString":
		p := args[0].(Ptr)
		obj := st.heap[p.id].(StructV)
		st.heap[p.id] = StructV{obj[0], append(append(ArrayV{}, obj[1].(ArrayV)...), args[1].(StrV))}
		set(Tuple{mkBV(0, 64), nilUnion()})
	case "fmt.Printf":
		fs, ok := constString(args[0])
		if !ok {
			panic(engineErr("Printf with symbolic format"))
		}
		w.emit(st, EvStdout, w.sprintf(st, fs, st.sliceElems(args[1].(SliceV))), fs, mkBV(0, 64), mkBV(0, 64))
		set(Tuple{mkBV(0, 64), nilUnion()})
	case "fmt.Fprintf":
		wr := args[0].(*Union)
		k, okk := wr.constKind()
		if !okk {
			panic(engineErr("Fprintf to symbolic writer"))
		}
		fa := st.sliceElems(args[2].(SliceV))
		kind := EvStderr
		buffered := false
		switch dst := wr.P[k].(type) {
		case Extern:
			switch dst.name {
			case "os.Stderr":
			case "os.Stdout":
				kind = EvStdout
			default:
				panic(engineErr("Fprintf to unknown writer"))
			}
		case Ptr:
			if _, isW := st.heap[dst.id].(StructV); !isW {
				panic(engineErr("Fprintf to unknown writer"))
			}
			buffered = true
		default:
			panic(engineErr("Fprintf to unknown writer"))
		}
		fsV := args[1].(StrV)
		fs, _ := constString(args[1])
		// a format that is not a constant (a message used as the format): the symbolic code
		// points in it either are all different from '%' — then they are copied through — or
		// one of them is a '%': that path continues with an opaque text and an unknown line,
		// and the native replay decides what fmt really printed
		var none []Term
		opaque := false
		for _, g := range fsV.Segs {
			switch g.K {
			case SegRune:
				none = append(none, mkNot(mkEq(g.T, mkBV('%', 32))))
			case SegAtom:
				if !asciiAtom(g.T) {
					opaque = true
				}
			}
		}
		if len(none) > 0 || opaque {
			condNone := mkAnd(none...)
			canNone, canSome := true, opaque
			if len(none) > 0 {
				var cs bool
				canNone, cs = w.branch(st, condNone)
				canSome = canSome || cs
			}
			if canSome {
				o := st
				if canNone {
					o = st.clone()
				}
				if len(none) > 0 && !opaque {
					o.assume(mkNot(condNone))
				}
				w.emit(o, kind, StrV{[]Seg{{K: SegAtom, T: o.fresh(STxt)}}}, "", mkBV(0, 64), o.fresh(SBV64))
				if x != nil {
					o.top().env[x] = Tuple{mkBV(0, 64), nilUnion()}
				}
				if !canNone {
					return true
				}
				w.push(o)
			}
			st.assume(condNone)
		}
		text, lineArg := w.sprintfSegs(st, fsV.Segs, fa)
		line := mkBV(0, 64)
		if lineArg != nil {
			if kk, ok := lineArg.constKind(); ok {
				if t, ok := lineArg.P[kk].(Term); ok && t.Sort == SBV64 {
					line = t
				}
			}
		}
		if buffered {
			w.writeTo(st, wr, text, fs, line)
		} else {
			w.emit(st, kind, text, fs, mkBV(0, 64), line)
		}
		set(Tuple{mkBV(0, 64), nilUnion()})
	case "fmt.Sprintf":
		fs, ok := constString(args[0])
		if ok {
			set(w.sprintf(st, fs, st.sliceElems(args[1].(SliceV))))
			break
		}
		// a format built from program text (as for Fprintf above): symbolic code points that
		// are all different from '%' are copied through; if one may be a '%', that path
		// continues with an opaque text and the native replay decides what fmt produced
		fsV := args[0].(StrV)
		var none []Term
		opaque := false
		for _, g := range fsV.Segs {
			switch g.K {
			case SegRune:
				none = append(none, mkNot(mkEq(g.T, mkBV('%', 32))))
			case SegAtom:
				if !asciiAtom(g.T) {
					opaque = true
				}
			}
		}
		if len(none) > 0 || opaque {
			condNone := mkAnd(none...)
			canNone, canSome := true, opaque
			if len(none) > 0 {
				var cs bool
				canNone, cs = w.branch(st, condNone)
				canSome = canSome || cs
			}
			if canSome {
				o := st
				if canNone {
					o = st.clone()
				}
				if len(none) > 0 && !opaque {
					o.assume(mkNot(condNone))
				}
				if x != nil {
					o.top().env[x] = atom(o.fresh(STxt))
				}
				if !canNone {
					return true
				}
				w.push(o)
			}
			st.assume(condNone)
		}
		text, _ := w.sprintfSegs(st, fsV.Segs, st.sliceElems(args[1].(SliceV)))
		set(text)
	case "fmt.Sprint":
		set(w.sprint(st, st.sliceElems(args[0].(SliceV)), false))
	case "fmt.Errorf":
		fs, ok := constString(args[0])
		if !ok {
			// the repo's parser passes a message variable as the format
			set(w.mkErr(st, args[0].(StrV)))
			break
		}
		set(w.mkErr(st, w.sprintf(st, fs, st.sliceElems(args[1].(SliceV)))))
	case "errors.New":
		set(w.mkErr(st, args[0].(StrV)))
	case "errors.Is":
		// modelled for the two strconv sentinels against errors made by the ParseFloat stub, and for
		// identical error objects
		e, t := args[0].(*Union), args[1].(*Union)
		ek, tk := kinds.of(synthErrType), kinds.of(synthErrType)
		tv, tok := t.P[tk].(ErrV)
		ev, eok := e.P[ek].(ErrV)
		if _, c := t.constKind(); !c || !tok {
			panic(engineErr("errors.Is with a target that is not a known sentinel"))
		}
		if !eok {
			set(mkBool(false))
			break
		}
		isErr := e.isKind(ek)
		switch {
		case ev.id == tv.id:
			set(isErr)
		case tv.id == -2 && ev.Range.S != "":
			set(mkAnd(isErr, ev.Range))
		case tv.id == -3 && ev.Range.S != "":
			set(mkAnd(isErr, mkNot(ev.Range)))
		case ev.Range.S == "" && tv.id < 0:
			set(mkBool(false))
		default:
			panic(engineErr("errors.Is on errors the model does not relate"))
		}
	case "strconv.ParseFloat":
		w.parseFloat(st, set, args[0].(StrV))
	case "strconv.ParseInt":
		w.parseInt(st, set, args[0].(StrV), args[1].(Term), args[2].(Term))
	case "math.Abs":
		set(fpAbs(args[0].(Term)))
	case "math.Sqrt":
		set(fpSqrt(args[0].(Term)))
	case "math.Round":
		set(fpRound("RNA", args[0].(Term)))
	case "math.Floor":
		set(fpRound("RTN", args[0].(Term)))
	case "math.Ceil":
		set(fpRound("RTP", args[0].(Term)))
	case "math.Trunc":
		set(fpRound("RTZ", args[0].(Term)))
	case "math.Pow":
		set(w.mathUF2("mPow", math.Pow, args[0].(Term), args[1].(Term)))
	case "math.Mod":
		set(w.mathUF2("mMod", math.Mod, args[0].(Term), args[1].(Term)))
	case "math.Sin":
		set(w.mathUF1("mSin", math.Sin, args[0].(Term)))
	case "math.Cos":
		set(w.mathUF1("mCos", math.Cos, args[0].(Term)))
	case "math.Tan":
		set(w.mathUF1("mTan", math.Tan, args[0].(Term)))
	case "math.Signbit":
		x := args[0].(Term)
		if v, ok := x.fpVal(); ok {
			set(mkBool(math.Signbit(v)))
		} else {
			// sign bit of the IEEE encoding; NaNs produced by the solver carry no sign, callers test NaN first
			set(mkOr(app(SBool, "fp.isNegative", x), mkAnd(app(SBool, "fp.isNaN", x), mkBool(false))))
		}
	case "math.IsNaN":
		set(fpIsNaN(args[0].(Term)))
	case "math.Float64bits", "math.Float64frombits", "math.Inf", "math.NaN":
		switch full {
		case "math.Inf":
			s, ok := args[0].(Term).intVal()
			if !ok {
				panic(engineErr("math.Inf symbolic sign"))
			}
			if s >= 0 {
				set(mkFP(math.Inf(1)))
			} else {
				set(mkFP(math.Inf(-1)))
			}
		case "math.NaN":
			set(mkFP(math.NaN()))
		default:
			panic(engineErr(full))
		}
	case "unicode.IsLetter":
		set(w.unicodePred("isLetterX", args[0].(Term)))
	case "unicode.IsMark":
		set(w.unicodePred("isMarkX", args[0].(Term)))
	case "unicode.IsDigit":
		set(w.unicodePred("isDigitX", args[0].(Term)))
	case "unicode.IsNumber":
		set(w.unicodePred("isNumberX", args[0].(Term)))
	case "unicode.IsSpace":
		set(w.unicodePred("isSpaceX", args[0].(Term)))
	case "unicode.IsUpper":
		set(w.unicodePred("isUpperX", args[0].(Term)))
	case "unicode.IsLower":
		set(w.unicodePred("isLowerX", args[0].(Term)))
	case "unicode.IsPunct":
		set(w.unicodePred("isPunctX", args[0].(Term)))
	case "(*strings.Builder).WriteRune":
		p := args[0].(Ptr)
		st.builders[p.id] = strCat(st.builders[p.id], StrV{[]Seg{runeSeg(args[1].(Term))}})
		set(Tuple{mkBV(0, 64), nilUnion()})
	case "(*strings.Builder).WriteString":
		p := args[0].(Ptr)
		st.builders[p.id] = strCat(st.builders[p.id], args[1].(StrV))
		set(Tuple{mkBV(0, 64), nilUnion()})
	case "(*strings.Builder).String":
		set(st.builders[args[0].(Ptr).id])
	case "reflect.TypeOf":
		u := args[0].(*Union)
		out := mkUnion(synthRType, u.Tag)
		out.Tag = mkIte(u.isKind(KNil), mkBV(KNil, 8), out.Tag)
		set(out)
	case "reflect.ValueOf":
		set(ReflVal{args[0].(*Union)})
	case "(reflect.Value).IsZero":
		u := args[0].(ReflVal).u
		w.obligation(st, "reflect-IsZero-on-zero-Value", token.NoPos, u.isKind(KNil))
		res := mkBool(false)
		for _, k := range u.kindsSorted() {
			res = mkIte(u.isKind(k), w.isZeroValue(st, u.P[k]), res)
		}
		set(res)
	case "(reflect.Value).Pointer":
		u := args[0].(ReflVal).u
		addr := mkBV(0, 64)
		{
			// Pointer panics on a Value that is not a chan, func, map, pointer, slice or
			// unsafe pointer (and on the zero Value of a nil interface)
			bad := []Term{u.isKind(KNil)}
			for _, k := range u.kindsSorted() {
				switch u.P[k].(type) {
				case SliceV, MapV, Ptr, FuncV:
				default:
					bad = append(bad, u.isKind(k))
				}
			}
			w.obligation(st, "reflect-Pointer-on-a-non-pointer-Value", token.NoPos, mkOr(bad...))
		}
		for _, k := range u.kindsSorted() {
			var a uint64
			switch p := u.P[k].(type) {
			case SliceV:
				if p.id != 0 {
					a = uint64(p.id)<<20 + uint64(p.off)*16
				}
			case MapV:
				a = uint64(p.id) << 20
			case Ptr:
				a = uint64(p.id)<<20 + uint64(len(p.path))
			default:
				continue
			}
			addr = mkIte(u.isKind(k), mkBV(a, 64), addr)
		}
		set(addr)
	case "sort.Slice", "sort.SliceStable":
		// modelled as a stable insertion sort driven by the caller's less function (which must
		// decide concretely); sort.Slice's instability is not modelled, but the order in which
		// the elements arrive (e.g. from a map range) is whatever the caller produced
		u := args[0].(*Union)
		k, okk := u.constKind()
		if !okk {
			panic(engineErr("sort.Slice on a symbolic value"))
		}
		sl, isSl := u.P[k].(SliceV)
		if !isSl {
			panic(engineErr("sort.Slice on a non-slice"))
		}
		less := args[1].(FuncV)
		elems := st.sliceElems(sl)
		for i := 1; i < len(elems); i++ {
			for j := i; j > 0; j-- {
				r := w.callSync(st, less.fn, []Value{mkBV(uint64(j), 64), mkBV(uint64(j-1), 64)}, less.bindings...)
				b, okb := r.(Term).boolVal()
				if !okb {
					panic(engineErr("sort.Slice with a symbolic comparison"))
				}
				if !b {
					break
				}
				elems[j], elems[j-1] = elems[j-1], elems[j]
			}
		}
	case "strings.Repeat":
		cnt, ok := args[1].(Term).intVal()
		if !ok || cnt < 0 || cnt > 20000000 {
			panic(engineErr("strings.Repeat with a symbolic or huge count"))
		}
		out := StrV{}
		for i := int64(0); i < cnt; i++ {
			out = strCat(out, args[0].(StrV))
		}
		set(out)
	case "strings.Join":
		out := StrV{}
		for i, e := range st.sliceElems(args[0].(SliceV)) {
			if i > 0 {
				out = strCat(out, args[1].(StrV))
			}
			out = strCat(out, e.(StrV))
		}
		set(out)
	case "strings.ToLower", "strings.ToUpper":
		c, ok := args[0].(StrV).concrete()
		if !ok {
			panic(engineErr(full + " on symbolic text"))
		}
		if full == "strings.ToLower" {
			set(strLit(strings.ToLower(c)))
		} else {
			set(strLit(strings.ToUpper(c)))
		}
	case "strconv.FormatInt":
		base, okb := args[1].(Term).intVal()
		if !okb || base != 10 {
			panic(engineErr("strconv.FormatInt with a base other than 10"))
		}
		set(w.fmtValue(st, types.Typ[types.Int64], args[0], 'd', 0))
	case "strconv.Itoa":
		set(w.fmtValue(st, types.Typ[types.Int], args[0], 'd', 0))
	case "strconv.FormatFloat":
		panic(engineErr("strconv.FormatFloat is not modelled"))
	case "math.Copysign":
		x, y := args[0].(Term), args[1].(Term)
		if xv, ok := x.fpVal(); ok {
			if yv, ok2 := y.fpVal(); ok2 {
				set(mkFP(math.Copysign(xv, yv)))
				break
			}
		}
		// the sign of a NaN second operand is not represented by SMT-LIB: taken as positive
		set(mkIte(app(SBool, "fp.isNegative", y), fpNeg(fpAbs(x)), fpAbs(x)))
	case "math.Max", "math.Min":
		panic(engineErr(full + " is not modelled"))
	case "unicode/utf8.DecodeRuneInString":
		rs, ok := args[0].(StrV).runeLevel()
		if !ok {
			panic(engineErr("utf8.DecodeRuneInString on opaque text"))
		}
		if len(rs) == 0 {
			set(Tuple{mkBV(0xFFFD, 32), mkBV(0, 64)})
		} else {
			set(Tuple{rs[0], utf8LenTerm(rs[0])})
		}
	case "unicode/utf8.RuneLen":
		set(utf8LenTerm(args[0].(Term)))
	case "unicode/utf8.EncodeRune":
		rv, okr := args[1].(Term).intVal()
		if !okr {
			panic(engineErr("utf8.EncodeRune of a symbolic code point"))
		}
		var tmp [4]byte
		k := utf8.EncodeRune(tmp[:], rune(rv))
		sl := args[0].(SliceV)
		if sl.n < k {
			w.obligation(st, "utf8-EncodeRune-into-a-short-slice", token.NoPos, mkBool(true))
			return true
		}
		arr := append(ArrayV{}, st.heap[sl.id].(ArrayV)...)
		for i := 0; i < k; i++ {
			arr[sl.off+i] = mkBV(uint64(tmp[i]), 8)
		}
		st.heap[sl.id] = arr
		set(mkBV(uint64(k), 64))
	case "unicode/utf8.RuneCountInString":
		rs, ok := args[0].(StrV).runeLevel()
		if !ok {
			panic(engineErr("utf8.RuneCountInString on opaque text"))
		}
		set(mkBV(uint64(len(rs)), 64))
	case "(*strings.Builder).Grow":
		// capacity only
	case "(*strings.Builder).WriteByte":
		p := args[0].(Ptr)
		b, okb := args[1].(Term).bvVal()
		if !okb || b >= 0x80 {
			panic(engineErr("Builder.WriteByte with a symbolic or non-ASCII byte"))
		}
		st.builders[p.id] = strCat(st.builders[p.id], strLit(string(rune(b))))
		set(nilUnion())
	case "(*strings.Builder).Len":
		set(strByteLen(st.builders[args[0].(Ptr).id]))
	case "sort.Strings":
		sl := args[0].(SliceV)
		elems := st.sliceElems(sl)
		strs := make([]string, len(elems))
		for i, e := range elems {
			c, ok := e.(StrV).concrete()
			if !ok {
				panic(engineErr("sort.Strings on symbolic strings"))
			}
			strs[i] = c
		}
		sort.Strings(strs)
		for i := range elems {
			elems[i] = strLit(strs[i])
		}
	case "strings.ContainsRune":
		rs, ok := args[0].(StrV).runeLevel()
		if !ok {
			panic(engineErr("strings.ContainsRune on opaque text"))
		}
		var any []Term
		for _, r := range rs {
			any = append(any, mkEq(r, args[1].(Term)))
		}
		set(mkOr(any...))
	case "strings.Contains":
		a, b := args[0].(StrV), args[1].(StrV)
		ca, oka := a.concrete()
		cb, okb := b.concrete()
		if oka && okb {
			set(mkBool(strings.Contains(ca, cb)))
		} else {
			set(containsInOrder(a, []Value{b}))
		}
	case "strings.HasPrefix", "strings.HasSuffix":
		a, b := args[0].(StrV), args[1].(StrV)
		ca, oka := a.concrete()
		cb, okb := b.concrete()
		if oka && okb {
			if full == "strings.HasPrefix" {
				set(mkBool(strings.HasPrefix(ca, cb)))
			} else {
				set(mkBool(strings.HasSuffix(ca, cb)))
			}
			break
		}
		ha, hb := expand(a), expand(b)
		if len(hb) > len(ha) {
			set(mkBool(false))
			break
		}
		off := 0
		if full == "strings.HasSuffix" {
			off = len(ha) - len(hb)
		}
		conj := []Term{}
		for i := range hb {
			conj = append(conj, unitEq(ha[off+i], hb[i]))
		}
		set(mkAnd(conj...))
	case "strings.TrimSuffix", "strings.TrimPrefix":
		ca, oka := args[0].(StrV).concrete()
		cb, okb := args[1].(StrV).concrete()
		if !oka || !okb {
			panic(engineErr(full + " on symbolic text"))
		}
		if full == "strings.TrimSuffix" {
			set(strLit(strings.TrimSuffix(ca, cb)))
		} else {
			set(strLit(strings.TrimPrefix(ca, cb)))
		}
	case "strings.TrimSpace":
		set(trimSpaceStr(args[0].(StrV)))
	case "strings.TrimRight", "strings.TrimLeft", "strings.Trim":
		cut, ok := args[1].(StrV).concrete()
		if !ok {
			panic(engineErr(full + " with a symbolic cutset"))
		}
		set(trimCutset(args[0].(StrV), cut, full != "strings.TrimRight", full != "strings.TrimLeft"))
	case "(golang.org/x/text/unicode/norm.Form).String":
		s := args[1].(StrV)
		form, ok := args[0].(Term).intVal()
		if !ok {
			panic(engineErr("symbolic norm form"))
		}
		if c, ok := s.concrete(); ok {
			set(strLit(norm.Form(form).String(c)))
		} else if form == int64(norm.NFC) {
			set(w.nfcStr(st, s))
		} else {
			panic(engineErr("normal form other than NFC on symbolic text"))
		}
	case "time.Now":
		// one instant per path (milliseconds since the epoch, below 2^42): the clock does not
		// advance while a check runs, so two readings agree
		if st.nowMs.S == "" {
			st.nowMs = w.nondet(st, "int64", SBV64)
			st.assume(bvCmp("bvsge", st.nowMs, mkBV(0, 64)))
			st.assume(bvCmp("bvslt", st.nowMs, mkBV(1<<42, 64)))
		}
		set(StructV{st.nowMs})
	case "time.Date":
		// concrete calendar fields; a Local time lies tz hours before the same fields read as UTC
		var f [7]int
		for i := 0; i < 7; i++ {
			v, ok := args[i].(Term).intVal()
			if !ok {
				panic(engineErr("time.Date with a symbolic field"))
			}
			f[i] = int(v)
		}
		ms := time.Date(f[0], time.Month(f[1]), f[2], f[3], f[4], f[5], f[6], time.UTC).UnixMilli()
		loc, _ := args[7].(Extern)
		switch loc.name {
		case "time.UTC":
			set(StructV{mkBV(uint64(ms), 64)})
		case "time.Local":
			if st.tzHours.S == "" {
				st.tzHours = w.nondet(st, "tzhours", SBV64)
				st.assume(bvCmp("bvsge", st.tzHours, mkBV(uint64(0xFFFFFFFFFFFFFFF4), 64))) // -12
				st.assume(bvCmp("bvsle", st.tzHours, mkBV(14, 64)))
			}
			// hours * 3 600 000 ms, as shifts and adds of a value in [-12, 14]
			off := mkBV(0, 64)
			for h := int64(-12); h <= 14; h++ {
				off = mkIte(mkEq(st.tzHours, mkBV(uint64(h), 64)), mkBV(uint64(h*3600000), 64), off)
			}
			set(StructV{bvBin("bvsub", mkBV(uint64(ms), 64), off, false)})
		default:
			panic(engineErr("time.Date in an unmodelled location"))
		}
	case "time.Since":
		if st.nowMs.S == "" {
			st.nowMs = w.nondet(st, "int64", SBV64)
			st.assume(bvCmp("bvsge", st.nowMs, mkBV(0, 64)))
			st.assume(bvCmp("bvslt", st.nowMs, mkBV(1<<42, 64)))
		}
		diff := bvBin("bvsub", st.nowMs, args[0].(StructV)[0].(Term), false)
		d := st.fresh(SBV64) // the Duration in nanoseconds: only its length in ms is tracked
		if st.durMs == nil {
			st.durMs = map[string]Term{}
		}
		st.durMs[d.S] = diff
		set(d)
	case "(time.Duration).Seconds", "(time.Duration).Milliseconds":
		ms, ok := st.durMs[args[0].(Term).S]
		if !ok {
			panic(engineErr("a Duration of unknown origin"))
		}
		if full == "(time.Duration).Milliseconds" {
			set(ms)
		} else {
			set(fpBin("fp.div", int64ToFP(ms), mkFP(1000)))
		}
	case "(time.Time).UnixMilli":
		set(args[0].(StructV)[0])
	case "os.Exit":
		w.emit(st, EvExit, StrV{}, "", args[0].(Term), mkBV(0, 64))
		st.exited = true
		w.exitHook(st)
	case "path/filepath.Ext":
		w.filepathExt(st, set, args[0].(StrV))
	case "os.ReadFile":
		w.osReadFile(st, set, args[0].(StrV))
	case "os.Open":
		// the script file of the process model, read sequentially: heap object = offset
		p := w.proc(st)
		if p.fileDir {
			// a directory opens; reading it fails
			set(Tuple{Ptr{id: st.alloc(StructV{mkBV(^uint64(0), 64)})}, nilUnion()})
		} else if !p.fileOK {
			set(Tuple{Ptr{}, w.mkErr(st, strLit("open: no such file or directory"))})
		} else {
			set(Tuple{Ptr{id: st.alloc(StructV{mkBV(0, 64)})}, nilUnion()})
		}
	case "os.IsNotExist":
		// true exactly for the error the process model makes for a missing script file
		eu := args[0].(*Union)
		ek := kinds.of(synthErrType)
		ev, isE := eu.P[ek].(ErrV)
		msg, isC := ev.Msg.concrete()
		if !isE || !isC {
			set(mkBool(false))
		} else {
			set(mkAnd(eu.isKind(ek), mkBool(strings.Contains(msg, "no such file"))))
		}
	case "(*os.File).Close":
		set(nilUnion())
	case "(*os.File).Read":
		// A-read: a read from a regular file fills the buffer as far as the file goes
		fp, isPtr := args[0].(Ptr)
		if !isPtr {
			panic(engineErr("read from an unknown file"))
		}
		text, okc := w.proc(st).fileText.concrete()
		if !okc {
			panic(engineErr("(*os.File).Read on a symbolic script"))
		}
		off64, _ := st.heap[fp.id].(StructV)[0].(Term).intVal()
		if off64 < 0 {
			set(Tuple{mkBV(0, 64), w.mkErr(st, strLit("read: is a directory"))})
			break
		}
		off := int(off64)
		sl := args[1].(SliceV)
		n := len(text) - off
		if n > sl.n {
			n = sl.n
		}
		if n <= 0 && sl.n > 0 {
			set(Tuple{mkBV(0, 64), eofUnion()})
		} else {
			if n > 0 {
				arr := append(ArrayV{}, st.heap[sl.id].(ArrayV)...)
				for i := 0; i < n; i++ {
					arr[sl.off+i] = mkBV(uint64(text[off+i]), 8)
				}
				st.heap[sl.id] = arr
			}
			st.heap[fp.id] = StructV{mkBV(uint64(off+n), 64)}
			set(Tuple{mkBV(uint64(n), 64), nilUnion()})
		}
	case "bufio.NewReader":
		// a fresh reader with an empty buffer over stdin (A-stdin); field 1: bytes of the
		// current line already handed out by ReadLine
		id := st.alloc(StructV{mkBV(0, 64), mkBV(0, 64)})
		set(Ptr{id: id})
	case "(*bufio.Reader).ReadLine":
		w.readerReadLine(st, set, args[0].(Ptr))
	case "(*bufio.Reader).ReadString":
		w.readerReadString(st, set, args[0].(Ptr))
	case "bufio.NewScanner":
		// field 1: the maximum token size (bufio.MaxScanTokenSize until Buffer changes it); field 2:
		// stopped; field 3: the split function (none: lines, delivered one per Scan); fields 4-6,
		// used with a split function: bytes read and not yet consumed, the current token, end of
		// input seen
		id := st.alloc(StructV{mkBV(0, 64), mkBV(65536, 64), mkBool(false), FuncV{}, StrV{}, StrV{}, mkBool(false)})
		set(Ptr{id: id})
	case "(*bufio.Scanner).Split":
		r := args[0].(Ptr)
		obj := append(StructV{}, st.heap[r.id].(StructV)...)
		obj[3] = args[1].(FuncV)
		st.heap[r.id] = obj
	case "(*bufio.Scanner).Err":
		set(nilUnion())
	case "bytes.IndexAny", "bytes.IndexByte":
		data := concreteBytes(st, args[0])
		if full == "bytes.IndexByte" {
			c, ok := args[1].(Term).bvVal()
			if !ok {
				panic(engineErr("bytes.IndexByte with a symbolic byte"))
			}
			set(mkBV(uint64(int64(bytes.IndexByte(data, byte(c)))), 64))
		} else {
			chars, ok := args[1].(StrV).concrete()
			if !ok {
				panic(engineErr("bytes.IndexAny with symbolic characters"))
			}
			set(mkBV(uint64(int64(bytes.IndexAny(data, chars))), 64))
		}
	case "(*bufio.Scanner).Buffer":
		r := args[0].(Ptr)
		obj := st.heap[r.id].(StructV)
		mx, ok := args[2].(Term).intVal()
		if !ok {
			panic(engineErr("Scanner.Buffer with a symbolic maximum"))
		}
		if c := int64(args[1].(SliceV).cap); c > mx {
			mx = c
		}
		nobj := append(StructV{}, obj...)
		nobj[1] = mkBV(uint64(mx), 64)
		st.heap[r.id] = nobj
	case "(*bufio.Scanner).Scan":
		w.scannerScan(st, set, args[0].(Ptr))
	case "(*bufio.Scanner).Text":
		w.scannerText(st, set, args[0].(Ptr))
	default:
		if strings.HasSuffix(full, ".init") && !w.inRepo(callee) {
			return true // initialisers of dependencies are not executed (their state is only reached through stubs)
		}
		return false
	}
	return true
}

// nfcStr: NFC of a text with symbolic parts. Code points below U+0300 are unaffected by
// normalisation and no combining mark exists below U+0300, so a text all of whose code
// points are (provably, under the path constraint) below U+0300 and whose opaque atoms are
// ASCII renderings (numbers, booleans) is its own NFC. Anything else is wrapped opaquely.
func (w *Worker) nfcStr(st *State, s StrV) StrV {
	safe := true
	for _, g := range s.Segs {
		switch g.K {
		case SegLit:
			for _, r := range g.Lit {
				if r >= 0x300 {
					safe = false
				}
			}
		case SegRune:
			if can, _ := w.branch(st, bvCmp("bvsge", g.T, mkBV(0x300, 32))); can {
				safe = false
			}
		case SegAtom:
			if !asciiAtom(g.T) {
				safe = false
			}
		}
		if !safe {
			break
		}
	}
	if safe {
		return s
	}
	return atom(app(STxt, "txtNFC", s.toTxt()))
}

func asciiAtom(t Term) bool {
	return strings.HasPrefix(t.S, "(fmtF ") || strings.HasPrefix(t.S, "(fmtI ") || (t.ite != nil && asciiAtom(t.ite.a) && asciiAtom(t.ite.b)) || strings.HasPrefix(t.S, "(txtCat (txtRune #x000000") && !strings.Contains(t.S, "w32_")
}

func (w *Worker) unicodePred(name string, c Term) Term {
	if v, ok := c.intVal(); ok {
		r := rune(v)
		switch name {
		case "isLetterX":
			return mkBool(unicode.IsLetter(r))
		case "isMarkX":
			return mkBool(unicode.IsMark(r))
		case "isDigitX":
			return mkBool(unicode.IsDigit(r))
		case "isNumberX":
			return mkBool(unicode.IsNumber(r))
		case "isSpaceX":
			return mkBool(unicode.IsSpace(r))
		case "isUpperX":
			return mkBool(unicode.IsUpper(r))
		case "isLowerX":
			return mkBool(unicode.IsLower(r))
		case "isPunctX":
			return mkBool(unicode.IsPunct(r))
		}
	}
	return app(SBool, name, c)
}

func (w *Worker) mathUF1(name string, fn func(float64) float64, a Term) Term {
	if v, ok := a.fpVal(); ok {
		return mkFP(fn(v))
	}
	return app(SFP, name, a)
}

func (w *Worker) mathUF2(name string, fn func(float64, float64) float64, a, b Term) Term {
	va, oka := a.fpVal()
	vb, okb := b.fpVal()
	if oka && okb {
		return mkFP(fn(va, vb))
	}
	return app(SFP, name, a, b)
}

// parseFloat: strconv.ParseFloat(s, 64) (A-float). Concrete text is parsed for real; a
// rune-level symbolic text of length n goes through the uninterpreted pair pfV_n / pfE_n
// (value, failed?) applied to its code points, with the documented facts about decimal digit
// strings added as ground axioms.
func (w *Worker) parseFloat(st *State, set func(Value), s StrV) {
	if c, ok := s.concrete(); ok {
		v, err := strconv.ParseFloat(c, 64)
		if err != nil {
			eu := w.mkErr(st, strLit(err.Error()))
			k := kinds.of(synthErrType)
			ev := eu.P[k].(ErrV)
			ev.Range = mkBool(errors.Is(err, strconv.ErrRange))
			eu.P[k] = ev
			set(Tuple{mkFP(v), eu})
		} else {
			set(Tuple{mkFP(v), nilUnion()})
		}
		return
	}
	rs, ok := s.runeLevel()
	if !ok {
		// opaque text: fully uninterpreted
		t := s.toTxt()
		declareUF("pfVt", "(declare-fun pfVt (Txt) (_ FloatingPoint 11 53))")
		declareUF("pfEt", "(declare-fun pfEt (Txt) Bool)")
		failed := app(SBool, "pfEt", t)
		errU := w.mkErr(st, strLit("strconv.ParseFloat: parsing: invalid syntax"))
		errU.Tag = mkIte(failed, errU.Tag, mkBV(KNil, 8))
		set(Tuple{mkIte(failed, mkFP(0), app(SFP, "pfVt", t)), errU})
		return
	}
	n := len(rs)
	bv32 := strings.TrimSpace(strings.Repeat("(_ BitVec 32) ", n))
	vName, eName := fmt.Sprintf("pfV%d", n), fmt.Sprintf("pfE%d", n)
	declareUF(vName, fmt.Sprintf("(declare-fun %s (%s) (_ FloatingPoint 11 53))", vName, bv32))
	declareUF(eName, fmt.Sprintf("(declare-fun %s (%s) Bool)", eName, bv32))
	failed := app(SBool, eName, rs...)
	val := app(SFP, vName, rs...)
	// ground axioms (documented strconv facts, instantiated at this application):
	//  - a string of ASCII digits (up to 15) never fails;
	//  - for n <= 2 the accepted strings are exactly d, dd, d., .d, +d, -d (values: exact for n = 1,
	//    left uninterpreted for n = 2: the FP axioms cost minutes of solver time and no check needs them).
	isD := func(r Term) Term { return mkAnd(bvCmp("bvuge", r, mkBV('0', 32)), bvCmp("bvule", r, mkBV('9', 32))) }
	dv := func(r Term) Term { return int64ToFP(bvBin("bvsub", bvResize(r, 64, false), mkBV('0', 64), false)) }
	is := func(r Term, c rune) Term { return mkEq(r, mkBV(uint64(c), 32)) }
	if n <= 120 {
		// every accepted text consists of ASCII letters, digits, '.', '+', '-' and '_' only
		// (decimal and hexadecimal numerals, exponents, "inf", "infinity", "nan")
		for _, r := range rs {
			if _, lit := r.bvVal(); lit {
				v, _ := r.intVal()
				c := rune(v)
				if !(c >= '0' && c <= '9' || c >= 'a' && c <= 'z' || c >= 'A' && c <= 'Z' || c == '.' || c == '+' || c == '-' || c == '_') {
					st.assume(failed)
				}
				continue
			}
			in := func(lo, hi rune) Term {
				return mkAnd(bvCmp("bvuge", r, mkBV(uint64(lo), 32)), bvCmp("bvule", r, mkBV(uint64(hi), 32)))
			}
			legal := mkOr(in('0', '9'), in('a', 'z'), in('A', 'Z'), is(r, '.'), is(r, '+'), is(r, '-'), is(r, '_'))
			st.assume(mkImplies(mkNot(legal), failed))
		}
	}
	switch n {
	case 1:
		st.assume(mkEq(failed, mkNot(isD(rs[0]))))
		st.assume(mkImplies(isD(rs[0]), mkEq(val, dv(rs[0]))))
	case 2:
		dd := mkAnd(isD(rs[0]), isD(rs[1]))
		dDot := mkAnd(isD(rs[0]), is(rs[1], '.'))
		dotD := mkAnd(is(rs[0], '.'), isD(rs[1]))
		plusD := mkAnd(is(rs[0], '+'), isD(rs[1]))
		minusD := mkAnd(is(rs[0], '-'), isD(rs[1]))
		st.assume(mkEq(failed, mkNot(mkOr(dd, dDot, dotD, plusD, minusD))))
		st.assume(mkImplies(mkNot(failed), mkNot(Term{S: "(fp.isNaN " + val.S + ")", Sort: SBool, Syms: val.Syms})))
		if st.opts["parsefloat-exact-integers"] {
			d0 := bvBin("bvsub", bvResize(rs[0], 64, false), mkBV('0', 64), false)
			d1 := bvBin("bvsub", bvResize(rs[1], 64, false), mkBV('0', 64), false)
			acc := bvBin("bvadd", bvBin("bvadd", bvBin("bvshl", d0, mkBV(3, 64), false), bvBin("bvshl", d0, mkBV(1, 64), false), false), d1, false)
			exact := Term{S: "((_ to_fp_unsigned 11 53) RNE " + acc.S + ")", Sort: SFP, Syms: acc.Syms}
			st.assume(mkImplies(dd, mkEq(val, exact)))
		}
	default:
		if n <= 120 {
			all := make([]Term, n)
			acc := mkBV(0, 64)
			for i, r := range rs {
				all[i] = isD(r)
				if n <= 19 && st.opts["parsefloat-exact-integers"] {
					d := bvBin("bvsub", bvResize(r, 64, false), mkBV('0', 64), false)
					// acc*10 as shifts and adds (cheap to bit-blast); <= 19 digits fit in 64 bits unsigned.
					// Each partial sum gets a name: acc occurs twice per step, so the unnamed term
					// would double in size with every digit.
					next := bvBin("bvadd", bvBin("bvadd", bvBin("bvshl", acc, mkBV(3, 64), false), bvBin("bvshl", acc, mkBV(1, 64), false), false), d, false)
					if _, isConst := next.bvVal(); isConst || i == 0 {
						acc = next
					} else {
						acc = st.fresh(SBV64)
						st.assume(mkEq(acc, next))
					}
				}
			}
			// a numeral of digits, or digits '.' digits (a point with at least one digit on each
			// side), is syntactically valid and — at these lengths — far below the range limit:
			// it never fails, and its value is a finite non-negative number (never NaN)
			shapes := []Term{mkAnd(all...)}
			for p := 1; p+1 < n; p++ {
				cs := make([]Term, n)
				for i, r := range rs {
					if i == p {
						cs[i] = is(r, '.')
					} else {
						cs[i] = all[i]
					}
				}
				shapes = append(shapes, mkAnd(cs...))
			}
			numeral := mkOr(shapes...)
			st.assume(mkImplies(numeral, mkNot(failed)))
			st.assume(mkImplies(numeral, mkNot(Term{S: "(fp.isNaN " + val.S + ")", Sort: SBool, Syms: val.Syms})))
			if n <= 19 && st.opts["parsefloat-exact-integers"] {
				// the correctly rounded value of an integer numeral: round-to-nearest-even of its
				// exact (unsigned 64-bit) value — the documented contract of strconv.ParseFloat
				exact := Term{S: "((_ to_fp_unsigned 11 53) RNE " + acc.S + ")", Sort: SFP, Syms: acc.Syms}
				st.assume(mkImplies(mkAnd(all...), mkEq(val, exact)))
			}
		}
	}
	if n > 120 && n <= 400 {
		// long integer numerals and the range limit (MaxFloat64 = 1.797…e308): 310 or more
		// digits with a non-zero lead, or 309 digits with a lead of 2 or more, are out of range
		// (ParseFloat reports ErrRange); a numeral whose digits before the last 308 are all
		// zeros is below 1e308 and never fails
		all := make([]Term, n)
		for i, r := range rs {
			all[i] = isD(r)
		}
		allD := mkAnd(all...)
		if n >= 310 {
			st.assume(mkImplies(mkAnd(allD, mkNot(is(rs[0], '0'))), failed))
		}
		if n == 309 {
			st.assume(mkImplies(mkAnd(allD, bvCmp("bvuge", rs[0], mkBV('2', 32))), failed))
		}
		if n >= 309 {
			zs := []Term{allD}
			for i := 0; i < n-308; i++ {
				zs = append(zs, is(rs[i], '0'))
			}
			st.assume(mkImplies(mkAnd(zs...), mkNot(failed)))
		} else {
			st.assume(mkImplies(allD, mkNot(failed)))
		}
		st.assume(mkImplies(allD, mkNot(Term{S: "(fp.isNaN " + val.S + ")", Sort: SBool, Syms: val.Syms})))
	}
	errU := w.mkErr(st, strLit("strconv.ParseFloat: parsing: invalid syntax or out of range"))
	{
		// which of the two failures it is: a text made of digits and at most one '.' is
		// syntactically fine, so it can only fail by range
		rName := fmt.Sprintf("pfR%d", n)
		declareUF(rName, fmt.Sprintf("(declare-fun %s (%s) Bool)", rName, bv32))
		isRange := app(SBool, rName, rs...)
		if n <= 400 {
			var ds, dots []Term
			for _, r := range rs {
				ds = append(ds, mkOr(isD(r), is(r, '.')))
				dots = append(dots, is(r, '.'))
			}
			atMostOneDot := mkBool(true)
			if n <= 20 {
				var pairs []Term
				for i := 0; i < n; i++ {
					for j := i + 1; j < n; j++ {
						pairs = append(pairs, mkNot(mkAnd(dots[i], dots[j])))
					}
				}
				atMostOneDot = mkAnd(pairs...)
			} else {
				// long texts: only all-digit numerals are classified
				ds = ds[:0]
				for _, r := range rs {
					ds = append(ds, isD(r))
				}
			}
			st.assume(mkImplies(mkAnd(mkAnd(ds...), atMostOneDot, mkOr(func() []Term {
				var o []Term
				for _, r := range rs {
					o = append(o, isD(r))
				}
				return o
			}()...)), isRange))
		}
		k := kinds.of(synthErrType)
		ev := errU.P[k].(ErrV)
		ev.Range = isRange
		errU.P[k] = ev
	}
	errU.Tag = mkIte(failed, errU.Tag, mkBV(KNil, 8))
	// on failure ParseFloat returns 0 for syntax errors and ±Inf for range errors: leave the value free but irrelevant
	set(Tuple{val, errU})
}

// parseInt: strconv.ParseInt(s, 10, 64). Concrete text is parsed for real; for a text of
// symbolic code points the documented contract is stated for digit strings: up to 19 digits
// give their exact value, or a range error when it exceeds MaxInt64; 20 or more digits with a
// non-zero lead are out of range. Anything else is left open (value and failure unconstrained).
func (w *Worker) parseInt(st *State, set func(Value), s StrV, base, bits Term) {
	b, ok1 := base.intVal()
	bs, ok2 := bits.intVal()
	if !ok1 || !ok2 {
		panic(engineErr("ParseInt with a symbolic base or size"))
	}
	if c, ok := s.concrete(); ok {
		v, err := strconv.ParseInt(c, int(b), int(bs))
		if err != nil {
			set(Tuple{mkBV(uint64(v), 64), w.mkErr(st, strLit(err.Error()))})
		} else {
			set(Tuple{mkBV(uint64(v), 64), nilUnion()})
		}
		return
	}
	rs, ok := s.runeLevel()
	if !ok || b != 10 || bs != 64 {
		panic(engineErr("ParseInt of opaque text or with an unmodelled base/size"))
	}
	n := len(rs)
	if n == 0 || n > 400 {
		panic(engineErr("ParseInt of a text of unmodelled length"))
	}
	bv32 := strings.TrimSpace(strings.Repeat("(_ BitVec 32) ", n))
	vName, eName := fmt.Sprintf("piV%d", n), fmt.Sprintf("piE%d", n)
	declareUF(vName, fmt.Sprintf("(declare-fun %s (%s) (_ BitVec 64))", vName, bv32))
	declareUF(eName, fmt.Sprintf("(declare-fun %s (%s) Bool)", eName, bv32))
	failed := app(SBool, eName, rs...)
	val := app(SBV64, vName, rs...)
	isD := func(r Term) Term { return mkAnd(bvCmp("bvuge", r, mkBV('0', 32)), bvCmp("bvule", r, mkBV('9', 32))) }
	all := make([]Term, n)
	for i, r := range rs {
		all[i] = isD(r)
	}
	allD := mkAnd(all...)
	if n <= 19 {
		acc := mkBV(0, 64)
		for i, r := range rs {
			d := bvBin("bvsub", bvResize(r, 64, false), mkBV('0', 64), false)
			next := bvBin("bvadd", bvBin("bvadd", bvBin("bvshl", acc, mkBV(3, 64), false), bvBin("bvshl", acc, mkBV(1, 64), false), false), d, false)
			if _, isConst := next.bvVal(); isConst || i == 0 {
				acc = next
			} else {
				acc = st.fresh(SBV64)
				st.assume(mkEq(acc, next))
			}
		}
		tooBig := bvCmp("bvugt", acc, mkBV(uint64(1<<63-1), 64))
		st.assume(mkImplies(allD, mkEq(failed, tooBig)))
		st.assume(mkImplies(mkAnd(allD, mkNot(tooBig)), mkEq(val, acc)))
	} else {
		st.assume(mkImplies(mkAnd(allD, mkNot(mkEq(rs[0], mkBV('0', 32)))), failed))
	}
	errU := w.mkErr(st, strLit("strconv.ParseInt: parsing: invalid syntax or value out of range"))
	errU.Tag = mkIte(failed, errU.Tag, mkBV(KNil, 8))
	set(Tuple{val, errU})
}

var ufMu sync.RWMutex

func declareUF(name, decl string) {
	ufMu.Lock()
	if _, ok := ufDecls[name]; !ok {
		ufDecls[name] = decl
	}
	ufMu.Unlock()
}

// resolveUnion: a union whose tag is symbolic but determined by the path constraint is
// replaced by its constant-tag form.
func (w *Worker) resolveUnion(st *State, u *Union) *Union {
	if _, ok := u.constKind(); ok {
		return u
	}
	var feas []int
	cands := append([]int{KNil}, u.kindsSorted()...)
	for _, k := range cands {
		if can, _ := w.branch(st, u.isKind(k)); can {
			feas = append(feas, k)
			if len(feas) > 1 {
				return u
			}
		}
	}
	if len(feas) != 1 {
		return u
	}
	k := feas[0]
	if k == KNil {
		return nilUnion()
	}
	return &Union{Tag: mkBV(uint64(k), 8), P: map[int]Value{k: u.P[k]}}
}

// trimSpaceStr: strings.TrimSpace. Concrete white space at either end is removed for real;
// an opaque core is wrapped as txtTrim(core) (idempotent, so already-trimmed cores are kept).
func trimSpaceStr(s StrV) StrV {
	if c, ok := s.concrete(); ok {
		return strLit(strings.TrimSpace(c))
	}
	segs := append([]Seg{}, s.Segs...)
	for len(segs) > 0 && segs[0].K == SegLit {
		t := strings.TrimLeftFunc(segs[0].Lit, unicode.IsSpace)
		if t == "" {
			segs = segs[1:]
			continue
		}
		segs[0] = Seg{K: SegLit, Lit: t}
		break
	}
	for len(segs) > 0 && segs[len(segs)-1].K == SegLit {
		t := strings.TrimRightFunc(segs[len(segs)-1].Lit, unicode.IsSpace)
		if t == "" {
			segs = segs[:len(segs)-1]
			continue
		}
		segs[len(segs)-1] = Seg{K: SegLit, Lit: t}
		break
	}
	core := StrV{segs}
	if c, ok := core.concrete(); ok {
		return strLit(c)
	}
	if len(segs) == 1 && segs[0].K == SegAtom && strings.HasPrefix(segs[0].T.S, "(txtTrim ") {
		return core
	}
	return atom(app(STxt, "txtTrim", core.toTxt()))
}

// trimCutset: strings.Trim/TrimLeft/TrimRight with a concrete cutset. Concrete characters at
// the trimmed ends are removed for real; if an opaque segment is then exposed at a trimmed
// end the remainder is wrapped in an uninterpreted function named after the operation.
func trimCutset(s StrV, cut string, left, right bool) StrV {
	segs := append([]Seg{}, s.Segs...)
	if left {
		for len(segs) > 0 && segs[0].K == SegLit {
			t := strings.TrimLeft(segs[0].Lit, cut)
			if t == "" {
				segs = segs[1:]
				continue
			}
			segs[0] = Seg{K: SegLit, Lit: t}
			break
		}
	}
	if right {
		for len(segs) > 0 && segs[len(segs)-1].K == SegLit {
			t := strings.TrimRight(segs[len(segs)-1].Lit, cut)
			if t == "" {
				segs = segs[:len(segs)-1]
				continue
			}
			segs[len(segs)-1] = Seg{K: SegLit, Lit: t}
			break
		}
	}
	core := StrV{segs}
	if len(segs) == 0 {
		return core
	}
	exposed := (left && segs[0].K != SegLit) || (right && segs[len(segs)-1].K != SegLit)
	if !exposed {
		return core
	}
	name := fmt.Sprintf("txtTrimSet_%x_%v_%v", cut, left, right)
	declareUF(name, fmt.Sprintf("(declare-fun %s (Txt) Txt)", name))
	return atom(app(STxt, name, core.toTxt()))
}

// utf8LenTerm: the number of bytes of the UTF-8 encoding of a (valid) code point.
func utf8LenTerm(r Term) Term {
	if v, ok := r.intVal(); ok {
		switch {
		case v < 0x80:
			return mkBV(1, 64)
		case v < 0x800:
			return mkBV(2, 64)
		case v < 0x10000:
			return mkBV(3, 64)
		}
		return mkBV(4, 64)
	}
	return mkIte(bvCmp("bvult", r, mkBV(0x80, 32)), mkBV(1, 64),
		mkIte(bvCmp("bvult", r, mkBV(0x800, 32)), mkBV(2, 64),
			mkIte(bvCmp("bvult", r, mkBV(0x10000, 32)), mkBV(3, 64), mkBV(4, 64))))
}

// strByteLen: len(s) for a text without opaque atoms.
func strByteLen(s StrV) Term {
	n := mkBV(0, 64)
	for _, g := range s.Segs {
		switch g.K {
		case SegLit:
			n = bvBin("bvadd", n, mkBV(uint64(len(g.Lit)), 64), false)
		case SegRune:
			n = bvBin("bvadd", n, utf8LenTerm(g.T), false)
		default:
			panic(engineErr("len of a text with opaque parts"))
		}
	}
	return n
}
