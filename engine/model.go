package main

import (
	"fmt"
	"math"
	"strconv"
	"strings"
)

// decodeModelValue turns a solver value into the text stored in replay vectors:
// bool -> "true"/"false"; integers -> signed decimal; float -> "0x<16 hex digits>" (bit pattern).
func decodeModelValue(kind, v string) string {
	v = strings.TrimSpace(v)
	switch kind {
	case "bool":
		if v == "true" {
			return "true"
		}
		return "false"
	case "float":
		return fmt.Sprintf("0x%016x", fpBits(v))
	default:
		u, w := bvBits(v)
		return strconv.FormatInt(signExt(u, w), 10)
	}
}

func bvBits(v string) (uint64, int) {
	switch {
	case strings.HasPrefix(v, "#x"):
		u, _ := strconv.ParseUint(v[2:], 16, 64)
		return u, 4 * (len(v) - 2)
	case strings.HasPrefix(v, "#b"):
		u, _ := strconv.ParseUint(v[2:], 2, 64)
		return u, len(v) - 2
	case strings.HasPrefix(v, "(_ bv"):
		f := strings.Fields(strings.Trim(v, "()"))
		if len(f) == 3 {
			u, _ := strconv.ParseUint(strings.TrimPrefix(f[1], "bv"), 10, 64)
			w, _ := strconv.Atoi(f[2])
			return u, w
		}
	}
	return 0, 64
}

func fpBits(v string) uint64 {
	switch {
	case strings.HasPrefix(v, "(fp "):
		f := strings.Fields(strings.Trim(v, "()"))
		if len(f) == 4 {
			s, _ := bvBits(f[1])
			e, _ := bvBits(f[2])
			m, _ := bvBits(f[3])
			return s<<63 | e<<52 | m
		}
	case strings.Contains(v, "NaN"):
		return math.Float64bits(math.NaN())
	case strings.Contains(v, "+oo"):
		return math.Float64bits(math.Inf(1))
	case strings.Contains(v, "-oo"):
		return math.Float64bits(math.Inf(-1))
	case strings.Contains(v, "-zero"):
		return 1 << 63
	case strings.Contains(v, "+zero"):
		return 0
	}
	return 0
}
