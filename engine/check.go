package main

import (
	"encoding/json"
	"fmt"
	"os"
	"path/filepath"
	"regexp"
	"sort"
	"strings"
	"sync"
	"time"
)

type PropSpec struct {
	Title       string    `json:"title"`
	Assumptions []string  `json:"assumptions"`
	Bounds      string    `json:"bounds"`
	Quick       []JobSpec `json:"quick"`
	Thorough    []JobSpec `json:"thorough"`
	// PanicsOnly: report only panic obligations (C07 collects them from every harness)
	PanicsOnly bool `json:"panics_only,omitempty"`
	// Include: job lists of other properties to run as well (C07, C16 reuse harnesses)
	Include []string `json:"include,omitempty"`
	// IncludeQuick: properties whose quick job list is run as well, in either tier (their
	// thorough lists are long and their panic obligations are evaluated by their own checks)
	IncludeQuick []string `json:"include_quick,omitempty"`
	// ExcludeIncluded: harness functions (regexp) left out of the included lists — long concrete
	// runs whose panic obligations their own property's check evaluates anyway
	ExcludeIncluded string `json:"exclude_included,omitempty"`
	// Selftest: concrete differential jobs engine-vs-native (translator validation)
	Selftest []JobSpec `json:"selftest,omitempty"`
	// OnlyIDs restricts the assertion ids that count for this property (regexp); others are
	// evaluated by the property they belong to.
	OnlyIDs string `json:"only_ids,omitempty"`
	SkipIDs string `json:"skip_ids,omitempty"`
}

type KnownFinding struct {
	Property string `json:"property"`
	Func     string `json:"func"`
	ID       string `json:"id"`
	Where    string `json:"where,omitempty"` // regexp over "trace | vector"
	What     string `json:"what"`
	Status   string `json:"status"`
}

type KnownFile struct {
	Findings []KnownFinding `json:"findings"`
	Fixed    []string       `json:"fixed"`
}

func loadJobs() (map[string]*PropSpec, error) {
	b, err := os.ReadFile(filepath.Join(gCfg.Verif, "harness", "jobs.json"))
	if err != nil {
		return nil, err
	}
	m := map[string]*PropSpec{}
	if err := json.Unmarshal(b, &m); err != nil {
		return nil, fmt.Errorf("jobs.json: %v", err)
	}
	return m, nil
}

func loadKnown() KnownFile {
	var k KnownFile
	b, err := os.ReadFile(filepath.Join(gCfg.Verif, "known_findings.json"))
	if err == nil {
		json.Unmarshal(b, &k)
	}
	return k
}

func violationText(v *Violation) string {
	b, _ := json.Marshal(v.Vector)
	return strings.Join(v.Trace, "; ") + " | " + string(b)
}

func (k KnownFile) match(prop string, j *Job, v *Violation) *KnownFinding {
	for i := range k.Findings {
		f := &k.Findings[i]
		if f.Status == "fixed" || f.Property != prop || f.ID != v.ID {
			continue
		}
		if f.Func != "" && f.Func != j.Pkg+"."+j.Func {
			continue
		}
		if f.Where != "" {
			re, err := regexp.Compile(f.Where)
			if err != nil || !re.MatchString(violationText(v)) {
				continue
			}
		}
		return f
	}
	return nil
}

func runCheck(prop, tier string, noReplay bool) int {
	t0 := time.Now()
	defer replayCleanup()
	replayProp = prop
	specs, err := loadJobs()
	if err != nil {
		fmt.Fprintln(os.Stderr, "ENGINE-ERROR:", err)
		return 2
	}
	ps := specs[prop]
	if ps == nil {
		fmt.Fprintf(os.Stderr, "ENGINE-ERROR: no jobs registered for property %s\n", prop)
		return 2
	}
	pick := func(p *PropSpec) []JobSpec {
		if tier == "thorough" && len(p.Thorough) > 0 {
			return p.Thorough
		}
		return p.Quick
	}
	jobSpecs := append([]JobSpec{}, pick(ps)...)
	var exclRe *regexp.Regexp
	if ps.ExcludeIncluded != "" {
		exclRe = regexp.MustCompile(ps.ExcludeIncluded)
	}
	addIncluded := func(list []JobSpec) {
		for _, s := range list {
			if exclRe != nil && exclRe.MatchString(s.Func) {
				continue
			}
			jobSpecs = append(jobSpecs, s)
		}
	}
	for _, inc := range ps.Include {
		if o := specs[inc]; o != nil {
			addIncluded(pick(o))
		}
	}
	for _, inc := range ps.IncludeQuick {
		if o := specs[inc]; o != nil {
			addIncluded(o.Quick)
		}
	}
	// de-duplicate
	seenJob := map[string]bool{}
	var uniq []JobSpec
	for _, s := range jobSpecs {
		k := fmt.Sprint(s.Pkg, s.Func, s.Args)
		if !seenJob[k] {
			seenJob[k] = true
			uniq = append(uniq, s)
		}
	}
	jobSpecs = uniq
	os.RemoveAll(filepath.Join(gCfg.Verif, "replays", prop))
	e, err := loadEngine()
	if err != nil {
		fmt.Fprintln(os.Stderr, "ENGINE-ERROR: load:", err)
		return 2
	}
	loadT := time.Since(t0)
	var jobs []*Job
	for _, s := range jobSpecs {
		j, err := e.mkJob(s)
		if err != nil {
			fmt.Fprintln(os.Stderr, "ENGINE-ERROR:", err)
			return 2
		}
		jobs = append(jobs, j)
	}
	t1 := time.Now()
	budget := gCfg.BudgetS
	if budget == 0 {
		budget = 1200
		if tier == "thorough" {
			budget = 3 * 3600
		}
	}
	gDeadline = time.Now().Add(time.Duration(budget) * time.Second)
	e.runJobs(jobs, gCfg.Workers)
	gDeadline = time.Time{}
	exploreT := time.Since(t1)

	onlyRe, skipRe := (*regexp.Regexp)(nil), (*regexp.Regexp)(nil)
	if ps.OnlyIDs != "" {
		onlyRe = regexp.MustCompile(ps.OnlyIDs)
	}
	if ps.SkipIDs != "" {
		skipRe = regexp.MustCompile(ps.SkipIDs)
	}
	counts := func(v *Violation) bool {
		if v.ID == "process-dies-with-a-host-panic" {
			return true // a crash of the modelled process is every property's business, C07's first
		}
		if ps.PanicsOnly && v.Kind != "panic" {
			return false
		}
		if !ps.PanicsOnly && v.Kind == "panic" && prop != "C07" {
			// panic obligations are C07's (every harness's panics are collected there)
			return gCfg.PanicsEverywhere
		}
		if onlyRe != nil && v.Kind == "assert" && !onlyRe.MatchString(v.ID) {
			return false
		}
		if skipRe != nil && v.Kind == "assert" && skipRe.MatchString(v.ID) {
			return false
		}
		return true
	}

	// replay
	type jv struct {
		j *Job
		v *Violation
	}
	var todo []jv
	for _, j := range jobs {
		for _, v := range j.Violations {
			if counts(v) {
				todo = append(todo, jv{j, v})
			}
		}
	}
	t2 := time.Now()
	if !noReplay {
		var wg sync.WaitGroup
		sem := make(chan struct{}, 8)
		for _, x := range todo {
			wg.Add(1)
			sem <- struct{}{}
			go func(x jv) {
				defer wg.Done()
				defer func() { <-sem }()
				replayViolation(e, x.j, x.v)
			}(x)
		}
		wg.Wait()
	}
	replayT := time.Since(t2)

	// translator validation (engine vs native on concrete inputs)
	selfOK, selfN, selfMsg := runSelftests(e, ps.Selftest)

	known := loadKnown()
	exit := 0
	var lines []string
	nViol, nKnown, nSpurious := 0, 0, 0
	seenKnown := map[string]bool{}
	for _, x := range todo {
		v := x.v
		if !noReplay && !v.Reproduced {
			nSpurious++
			lines = append(lines, fmt.Sprintf("INCONCLUSIVE property=%s counterexample for %s in %s did not reproduce natively (stub-exploiting model); see %s", prop, v.ID, x.j.Name, v.ReplayPath))
			if exit == 0 {
				exit = 2
			}
			continue
		}
		if f := known.match(prop, x.j, v); f != nil {
			v.Known = f.What
			nKnown++
			if !seenKnown[f.What] {
				seenKnown[f.What] = true
				lines = append(lines, fmt.Sprintf("KNOWN-FINDING: property=%s %s", prop, f.What))
			}
			continue
		}
		nViol++
		exit = 1
		lines = append(lines, fmt.Sprintf("VIOLATION property=%s replay=%s  # %s in %s", prop, v.ReplayPath, v.ID, x.j.Name))
	}
	var inconc []string
	for _, j := range jobs {
		for m, n := range j.Inconclusive {
			inconc = append(inconc, fmt.Sprintf("%s: %s (x%d)", j.Name, m, n))
		}
		if len(j.Asserts) == 0 && j.PanicChecks == 0 && j.Paths == 0 {
			inconc = append(inconc, j.Name+": VACUOUS (no path completed)")
		}
	}
	// vacuity: every assertion site this job reached on the reference run must be reached again
	// (a site that silently becomes unreachable would otherwise pass everything)
	if exp := loadExpectedSites(); exp != nil {
		for _, j := range jobs {
			for _, id := range exp[j.Name] {
				if _, ok := j.Asserts[id]; !ok {
					if _, cut := j.Inconclusive["exploration time budget exhausted with paths left unexplored"]; cut {
						continue
					}
					inconc = append(inconc, fmt.Sprintf("%s: VACUOUS: assertion site %q was not reached (it is on the reference run)", j.Name, id))
				}
			}
		}
	}
	sort.Strings(inconc)
	if len(inconc) > 0 && exit == 0 {
		exit = 2
	}
	if !selfOK && exit == 0 {
		exit = 2
		inconc = append(inconc, "translator validation failed: "+selfMsg)
	}
	for _, l := range lines {
		fmt.Println(l)
	}
	for _, m := range inconc {
		fmt.Println("INCONCLUSIVE", "property="+prop, m)
	}

	// ---- evidence ----
	var states, transitions, obligations, discharged, folded, panicChecks int64
	funcs := map[string]int64{}
	var samples []interface{}
	var jobSummaries []interface{}
	unwinding := map[string]int{}
	for _, j := range jobs {
		states += j.Paths + j.Cut
		transitions += j.Forks
		panicChecks += j.PanicChecks
		as := map[string]interface{}{}
		for id, a := range j.Asserts {
			obligations += int64(a.Reached)
			discharged += int64(a.Unsat + a.Folded)
			folded += int64(a.Folded)
			as[id] = map[string]int{"reached": a.Reached, "folded_syntactically": a.Folded, "unsat": a.Unsat, "sat": a.Sat}
		}
		for f, n := range j.Funcs {
			funcs[f] += n
		}
		for k, n := range j.Reached {
			if strings.HasPrefix(k, "cut:") || k == "assume-cut" {
				unwinding[j.Name+" "+k] += n
			}
		}
		jobSummaries = append(jobSummaries, map[string]interface{}{"job": j.Name, "paths": j.Paths, "cut_paths": j.Cut, "forks": j.Forks, "ssa_instructions": j.Instrs,
			"panic_obligations_needing_solver": j.PanicChecks, "assertions": as, "reach": j.Reached, "max_call_depth": j.MaxDepth})
		for _, s := range j.Samples {
			if len(samples) < 12 {
				samples = append(samples, map[string]string{"job": j.Name, "path": s})
			}
		}
		for _, v := range j.Violations {
			if len(samples) < 24 {
				samples = append(samples, map[string]interface{}{"job": j.Name, "counterexample_for": v.ID, "vector": v.Vector, "reproduced_natively": v.Reproduced, "counts_for_this_property": counts(v), "known": v.Known})
			}
		}
	}
	if len(samples) == 0 {
		for _, j := range jobs {
			samples = append(samples, map[string]interface{}{"job": j.Name, "paths": j.Paths, "note": "all obligations discharged; no counterexample to show"})
		}
	}
	fnames := make([]string, 0, len(funcs))
	for f := range funcs {
		fnames = append(fnames, f)
	}
	sort.Strings(fnames)
	ev := map[string]interface{}{
		"property_id": prop,
		"tier":        tier,
		"seed":        gCfg.Seed,
		"level":       "model_checking",
		"coverage": map[string]interface{}{
			"states":                           max64(states, 1),
			"transitions":                      max64(transitions, 1),
			"traces_validated_against_impl":    selfN + len(todo),
			"samples":                          samples,
			"explanation":                      "bounded symbolic execution of the repository's go/ssa with an SMT solver deciding every branch feasibility, assertion and panic obligation; states = feasible paths explored (incl. paths cut by a stated bound), transitions = symbolic branch decisions that forked",
			"obligations":                      obligations,
			"discharged":                       discharged,
			"obligations_folded_syntactically": folded,
			"panic_obligations_needing_solver": panicChecks,
			"functions_encoded":                fnames,
			"jobs":                             jobSummaries,
			"bounds":                           ps.Bounds,
			"unwinding_assumed":                unwinding,
			"solver": map[string]interface{}{"queries": gStats.Queries, "cache_hits": gStats.CacheHits, "sat": gStats.Sat, "unsat": gStats.Unsat, "unknown": gStats.Unknown, "errors": gStats.Errors,
				"cvc5_queries": gStats.Cvc5Queries, "solver_time_s": float64(gStats.Nanos) / 1e9, "slowest_query_ms": gStats.SlowestMs, "solvers": []string{"z3 4.8.12 (incremental for Bool/BV, fresh context for FP)", "cvc5 1.0 (fallback for FP)"}},
			"timing_s":              map[string]float64{"load_and_init": loadT.Seconds(), "explore": exploreT.Seconds(), "replay": replayT.Seconds()},
			"violations_reproduced": nViol, "known_findings_hit": nKnown, "spurious_models": nSpurious,
			"translator_validation": selfMsg,
			"inconclusive":          inconc,
			"exhaustive":            false,
		},
		"assumptions": append(append([]string{}, ps.Assumptions...), initNotes()...),
		"wall_s":      time.Since(t0).Seconds(),
		"violations":  nViol,
	}
	evDir := filepath.Join(gCfg.Verif, "evidence")
	if abs, err := filepath.Abs(gCfg.Repo); err == nil && abs != "/repo" {
		// a run against a scratch copy (seeded change) never overwrites the evidence of /repo
		evDir = filepath.Join(os.TempDir(), "bsym-evidence-"+filepath.Base(abs))
	}
	os.MkdirAll(evDir, 0o755)
	b, _ := json.MarshalIndent(ev, "", " ")
	if err := os.WriteFile(filepath.Join(evDir, prop+".json"), b, 0o644); err != nil {
		fmt.Fprintln(os.Stderr, "ENGINE-ERROR: evidence:", err)
		return 2
	}
	fmt.Printf("property=%s tier=%s jobs=%d paths=%d obligations=%d discharged=%d violations=%d known=%d inconclusive=%d queries=%d wall=%.1fs exit=%d\n",
		prop, tier, len(jobs), states, obligations, discharged, nViol, nKnown, len(inconc)+nSpurious, gStats.Queries, time.Since(t0).Seconds(), exit)
	return exit
}

func max64(a, b int64) int64 {
	if a > b {
		return a
	}
	return b
}

func runSelftests(e *Engine, specs []JobSpec) (bool, int, string) {
	if len(specs) == 0 {
		return true, 0, "none registered for this property"
	}
	return runSelftestJobs(e, specs)
}

func loadExpectedSites() map[string][]string {
	b, err := os.ReadFile(filepath.Join(gCfg.Verif, "harness", "expected_sites.json"))
	if err != nil {
		return nil
	}
	m := map[string][]string{}
	if json.Unmarshal(b, &m) != nil {
		return nil
	}
	return m
}

func initNotes() []string {
	if len(gInitForked) == 0 {
		return nil
	}
	return []string{"A-init: the package initialiser of " + strings.Join(gInitForked, ", ") + " ranges over a map; the checks start from the state in which such ranges went in insertion order"}
}
