package main

import (
	"context"
	"crypto/sha1"
	"encoding/json"
	"fmt"
	"os"
	"os/exec"
	"path/filepath"
	"regexp"
	"strconv"
	"strings"
	"sync"
	"time"
)

// Native replay (DESIGN §2.10): the harness function is compiled natively together with the
// real package (go test -overlay, nothing is written into the repo), the verifNondet* calls
// return the solver's values, and a violation is reported only if the same assertion fails
// (or the same kind of panic occurs) in the real build.

type replayBuild struct {
	bin string
	err string
}

var (
	replayMu     sync.Mutex
	replayBuilds = map[string]*replayBuild{}
	replayTmp    string
	replayProp   = "dev"
)

func replayCleanup() {
	if replayTmp != "" && os.Getenv("BSYM_KEEP") == "" {
		os.RemoveAll(replayTmp)
	}
}

var nonWord = regexp.MustCompile(`[^A-Za-z0-9_.-]+`)

func callExpr(j *Job) string {
	as := make([]string, len(j.Args))
	for i, a := range j.Args {
		as[i] = fmt.Sprint(a)
	}
	return j.Func + "(" + strings.Join(as, ", ") + ")"
}

func buildReplayBinary(j *Job) *replayBuild {
	replayMu.Lock()
	defer replayMu.Unlock()
	if b, ok := replayBuilds[j.Name]; ok {
		return b
	}
	b := &replayBuild{}
	replayBuilds[j.Name] = b
	if replayTmp == "" {
		d, err := os.MkdirTemp("", "bsym-replay-")
		if err != nil {
			b.err = err.Error()
			return b
		}
		replayTmp = d
	}
	ov, err := harnessOverlay(true)
	if err != nil {
		b.err = err.Error()
		return b
	}
	dir := filepath.Join(replayTmp, nonWord.ReplaceAllString(j.Name, "_"))
	os.MkdirAll(dir, 0o755)
	pkgDir := filepath.Join(gCfg.Repo, j.Pkg)
	pkgName := j.Pkg
	if j.Pkg == "main" {
		pkgDir = gCfg.Repo
	}
	ov[filepath.Join(pkgDir, "zz_verif_replay_test.go")] = []byte(fmt.Sprintf("package %s\n\nimport \"testing\"\n\nfunc TestVerifReplay(t *testing.T) { verifReplayMain(func() { %s }) }\n", pkgName, callExpr(j)))
	repl := map[string]string{}
	i := 0
	for virt, content := range ov {
		i++
		real := filepath.Join(dir, fmt.Sprintf("f%03d_%s", i, filepath.Base(virt)))
		if err := os.WriteFile(real, content, 0o644); err != nil {
			b.err = err.Error()
			return b
		}
		repl[virt] = real
	}
	ovJSON, _ := json.Marshal(map[string]interface{}{"Replace": repl})
	ovPath := filepath.Join(dir, "overlay.json")
	os.WriteFile(ovPath, ovJSON, 0o644)
	bin := filepath.Join(dir, "replay.test")
	ctx, cancel := context.WithTimeout(context.Background(), 5*time.Minute)
	defer cancel()
	cmd := exec.CommandContext(ctx, "go", "test", "-c", "-vet=off", "-overlay", ovPath, "-o", bin, ".")
	cmd.Dir = pkgDir
	cmd.Env = append(os.Environ(), "GOFLAGS=-mod=readonly", "GOPROXY=off", "GOSUMDB=off", "GOTOOLCHAIN=local")
	out, err := cmd.CombinedOutput()
	if err != nil {
		b.err = fmt.Sprintf("native build failed: %v\n%s", err, out)
		return b
	}
	b.bin = bin
	return b
}

func replayViolation(e *Engine, j *Job, v *Violation) {
	v.Replayed = true
	h := sha1.Sum([]byte(j.Name + "|" + v.ID + "|" + fmt.Sprint(v.Vector)))
	dir := filepath.Join(gCfg.Verif, "replays", replayProp, fmt.Sprintf("%s-%x", nonWord.ReplaceAllString(j.Name, "_"), h[:5]))
	os.MkdirAll(dir, 0o755)
	v.ReplayPath = dir
	vec, _ := json.MarshalIndent(v.Vector, "", " ")
	vecPath := filepath.Join(dir, "vector.json")
	os.WriteFile(vecPath, vec, 0o644)
	meta, _ := json.MarshalIndent(map[string]interface{}{"job": j.Name, "pkg": j.Pkg, "func": j.Func, "args": j.Args, "id": v.ID, "kind": v.Kind, "trace": v.Trace}, "", " ")
	os.WriteFile(filepath.Join(dir, "meta.json"), meta, 0o644)
	b := buildReplayBinary(j)
	if b.err != "" {
		v.ReplayOut = b.err
		return
	}
	runs := 1
	for _, en := range v.Vector {
		if en.Kind == "maporder" {
			runs = 60 // wait for the runtime to produce the schedule (A-maporder)
		}
	}
	var transcript strings.Builder
	for r := 0; r < runs && !v.Reproduced; r++ {
		limit := 15 * time.Second
		if strings.Contains(v.ID, "stack-overflow") {
			limit = 120 * time.Second // the Go runtime aborts only after growing the stack to its 1 GB limit
		}
		ctx, cancel := context.WithTimeout(context.Background(), limit)
		cmd := exec.CommandContext(ctx, b.bin, "-test.run", "^TestVerifReplay$", "-test.timeout", "300s")
		cmd.Env = append(os.Environ(), "VERIF_VECTOR="+vecPath)
		for _, en := range v.Vector {
			if en.Kind == "tzhours" {
				// the counterexample's time zone: Etc/GMT-6 is six hours east of Greenwich (POSIX sign)
				if h, err := strconv.Atoi(en.Val); err == nil {
					cmd.Env = append(cmd.Env, fmt.Sprintf("TZ=Etc/GMT%+d", -h))
				}
			}
		}
		if j.Pkg == "main" {
			cmd.Env = append(cmd.Env, "VERIF_BORNO_BIN="+bornoBinary())
		}
		cmd.Dir = dir
		// output goes to a file: a process killed by the Go runtime ("fatal error: stack
		// overflow") was observed to leave nothing in an os/exec pipe
		outPath := filepath.Join(dir, fmt.Sprintf("native_run_%d.txt", r))
		outFile, ferr := os.Create(outPath)
		if ferr != nil {
			v.ReplayOut = ferr.Error()
			cancel()
			return
		}
		cmd.Stdout, cmd.Stderr = outFile, outFile
		runErr := cmd.Run()
		outFile.Close()
		out, _ := os.ReadFile(outPath)
		if os.Getenv("BSYM_KEEP") != "" {
			fmt.Fprintf(os.Stderr, "replay run %d: %v, %d bytes, cmd=%v env-extra=%v\n", r, runErr, len(out), cmd.Args, cmd.Env[len(cmd.Env)-2:])
		}
		os.Remove(outPath)
		if len(out) > 200000 {
			out = out[:200000]
		}
		if len(out) == 0 && runErr != nil {
			out = []byte("(native run produced no output: " + runErr.Error() + ")\n")
		}
		timedOut := ctx.Err() == context.DeadlineExceeded
		cancel()
		o := string(out)
		if r == 0 || strings.Contains(o, "VERIF-ASSERT-FAIL") || strings.Contains(o, "VERIF-PANIC") {
			transcript.Reset()
			transcript.WriteString(o)
		}
		switch v.Kind {
		case "assert":
			for _, l := range strings.Split(o, "\n") {
				if strings.TrimSpace(l) == "VERIF-ASSERT-FAIL "+v.ID {
					v.Reproduced = true
				}
			}
		case "panic":
			if strings.Contains(o, "VERIF-PANIC ") || strings.Contains(o, "panic:") || strings.Contains(o, "fatal error:") {
				v.Reproduced = true
			}
		}
		if strings.Contains(o, "test timed out") || timedOut {
			transcript.WriteString("\n(native run did not terminate within the time limit)\n")
			if v.Kind == "assert" && strings.Contains(v.ID, "terminat") {
				v.Reproduced = true
			}
		}
	}
	v.ReplayOut = transcript.String()
	if len(v.ReplayOut) > 4000 {
		v.ReplayOut = v.ReplayOut[:4000] + "…"
	}
	os.WriteFile(filepath.Join(dir, "native_output.txt"), []byte(transcript.String()), 0o644)
}

var (
	bornoOnce sync.Once
	bornoPath string
)

// bornoBinary builds the repository's CLI as it is now (no overlay) for process-level replays.
func bornoBinary() string {
	bornoOnce.Do(func() {
		replayMu.Lock()
		if replayTmp == "" {
			d, err := os.MkdirTemp("", "bsym-replay-")
			if err == nil {
				replayTmp = d
			}
		}
		tmp := replayTmp
		replayMu.Unlock()
		out := filepath.Join(tmp, "borno-cli")
		cmd := exec.Command("go", "build", "-o", out, ".")
		cmd.Dir = gCfg.Repo
		cmd.Env = append(os.Environ(), "GOFLAGS=-mod=readonly", "GOPROXY=off", "GOSUMDB=off", "GOTOOLCHAIN=local")
		if b, err := cmd.CombinedOutput(); err != nil {
			fmt.Fprintf(os.Stderr, "building the CLI failed: %v\n%s", err, b)
			return
		}
		bornoPath = out
	})
	return bornoPath
}

// runReplayFile re-runs a stored counterexample (a directory written by a check under
// /verif/replays/<property>/) against the repository as it is now.
func runReplayFile(path string) int {
	defer replayCleanup()
	b, err := os.ReadFile(filepath.Join(path, "meta.json"))
	if err != nil {
		fmt.Fprintln(os.Stderr, "replay:", err)
		return 2
	}
	var meta struct {
		Pkg, Func, ID, Kind string
		Args                []int64
	}
	if err := json.Unmarshal(b, &meta); err != nil {
		fmt.Fprintln(os.Stderr, "replay:", err)
		return 2
	}
	vb, err := os.ReadFile(filepath.Join(path, "vector.json"))
	if err != nil {
		fmt.Fprintln(os.Stderr, "replay:", err)
		return 2
	}
	var vec []VecEntry
	json.Unmarshal(vb, &vec)
	j := &Job{Name: meta.Pkg + "." + meta.Func + fmt.Sprint(meta.Args), Pkg: meta.Pkg, Func: meta.Func, Args: meta.Args}
	v := &Violation{Job: j.Name, ID: meta.ID, Kind: meta.Kind, Vector: vec}
	replayProp = "manual"
	replayViolation(nil, j, v)
	fmt.Print(v.ReplayOut)
	if v.Reproduced {
		fmt.Printf("REPRODUCED %s (%s) against %s\n", meta.ID, meta.Kind, gCfg.Repo)
		return 1
	}
	fmt.Printf("not reproduced: %s\n", meta.ID)
	return 0
}
