package main

import (
	"bufio"
	"fmt"
	"io"
	"os"
	"os/exec"
	"sort"
	"strings"
	"sync"
	"sync/atomic"
	"syscall"
	"time"
	"unicode"
)

// One solver process, used through marker-framed batches: every query starts with (reset),
// so no state survives between queries (fresh context per query, DESIGN §2.8).
type Proc struct {
	kind string // z3 | cvc5 | z3-new
	cmd  *exec.Cmd
	in   io.WriteCloser
	out  *bufio.Reader
	seq  int
	base bool // incremental mode: header and unicode predicates already defined
}

func startProc(kind string) (*Proc, error) {
	var cmd *exec.Cmd
	switch kind {
	case "z3":
		cmd = exec.Command("z3", "-in")
	case "z3-new":
		cmd = exec.Command("z3-new", "-in")
	case "cvc5":
		cmd = exec.Command("cvc5", "--incremental", "--lang=smt2", "--produce-models", "--fp-exp")
	default:
		return nil, fmt.Errorf("unknown solver %s", kind)
	}
	cmd.SysProcAttr = &syscall.SysProcAttr{Pdeathsig: syscall.SIGKILL}
	in, err := cmd.StdinPipe()
	if err != nil {
		return nil, err
	}
	out, err := cmd.StdoutPipe()
	if err != nil {
		return nil, err
	}
	cmd.Stderr = cmd.Stdout
	if err := cmd.Start(); err != nil {
		return nil, err
	}
	return &Proc{kind: kind, cmd: cmd, in: in, out: bufio.NewReaderSize(out, 1<<16)}, nil
}

func (p *Proc) kill() {
	if p == nil || p.cmd == nil || p.cmd.Process == nil {
		return
	}
	p.cmd.Process.Kill()
	p.cmd.Wait()
}

// exchange sends a batch and returns the output lines up to the marker.
func (p *Proc) exchange(script string, timeout time.Duration) ([]string, error) {
	p.seq++
	marker := fmt.Sprintf("VERIFDONE%d", p.seq)
	done := make(chan error, 1)
	go func() {
		_, err := io.WriteString(p.in, script+"\n(echo \""+marker+"\")\n")
		done <- err
	}()
	type res struct {
		lines []string
		err   error
	}
	rc := make(chan res, 1)
	go func() {
		var lines []string
		for {
			l, err := p.out.ReadString('\n')
			if strings.Contains(l, marker) {
				rc <- res{lines, nil}
				return
			}
			if err != nil {
				rc <- res{lines, fmt.Errorf("solver %s died: %v (%s)", p.kind, err, strings.Join(lines, "|"))}
				return
			}
			l = strings.TrimSpace(l)
			if l != "" {
				lines = append(lines, l)
			}
		}
	}()
	select {
	case r := <-rc:
		<-done
		return r.lines, r.err
	case <-time.After(timeout):
		p.kill()
		return nil, fmt.Errorf("timeout")
	}
}

// ---------------------------------------------------------------------------------------

type SolverStats struct {
	Queries, CacheHits, Sat, Unsat, Unknown, Errors int64
	Nanos                                           int64
	Cvc5Queries, Cvc5Wins                           int64
	SlowestMs                                       int64
}

var gStats SolverStats

type queryCacheT struct {
	mu    sync.Mutex
	m     map[string]string
	bytes int // total key bytes; the cache is emptied when it passes cacheLimitBytes
}

const cacheLimitBytes = 400 << 20

var queryCache = &queryCacheT{m: map[string]string{}}

// Solver is owned by one worker goroutine.
type Solver struct {
	z3, z3inc, cvc5 *Proc
	timeout         time.Duration
	dumpDir         string
}

func newSolver() *Solver { return &Solver{timeout: time.Duration(gCfg.QueryTimeoutS) * time.Second} }

func (s *Solver) close() {
	s.z3.kill()
	s.z3inc.kill()
	s.cvc5.kill()
	s.z3, s.z3inc, s.cvc5 = nil, nil, nil
}

func sortOfSym(name string) Sort {
	switch {
	case strings.HasPrefix(name, "b_"):
		return SBool
	case strings.HasPrefix(name, "c8_"):
		return SBV8
	case strings.HasPrefix(name, "h16_"):
		return SBV16
	case strings.HasPrefix(name, "w32_"):
		return SBV32
	case strings.HasPrefix(name, "i64_"):
		return SBV64
	case strings.HasPrefix(name, "f_"):
		return SFP
	case strings.HasPrefix(name, "t_"):
		return STxt
	}
	panic("symbol without sort prefix: " + name)
}

func symPrefix(s Sort) string {
	switch s {
	case SBool:
		return "b_"
	case SBV8:
		return "c8_"
	case SBV16:
		return "h16_"
	case SBV32:
		return "w32_"
	case SBV64:
		return "i64_"
	case SFP:
		return "f_"
	case STxt:
		return "t_"
	}
	panic("symPrefix")
}

// sliceConstraints keeps the conjuncts of pc that are connected (through shared symbols) to
// the symbols of extra. The path constraint is satisfiable by invariant, so dropping
// conjuncts that share no symbol with the query preserves the answer.
func sliceConstraints(pc []Term, extra ...Term) []Term {
	want := map[string]bool{}
	for _, e := range extra {
		for _, s := range e.Syms {
			want[s] = true
		}
	}
	if len(want) == 0 {
		return nil
	}
	used := make([]bool, len(pc))
	for changed := true; changed; {
		changed = false
		for i, c := range pc {
			if used[i] {
				continue
			}
			hit := false
			for _, s := range c.Syms {
				if want[s] {
					hit = true
					break
				}
			}
			if hit {
				used[i], changed = true, true
				for _, s := range c.Syms {
					want[s] = true
				}
			}
		}
	}
	var out []Term
	for i, c := range pc {
		if used[i] {
			out = append(out, c)
		}
	}
	return out
}

var (
	unicodeDefsOnce sync.Once
	unicodeDefs     map[string]string
)

type rg struct{ lo, hi uint32 }

func mergedRanges(tabs ...*unicode.RangeTable) []rg {
	var rs []rg
	for _, t := range tabs {
		for _, r := range t.R16 {
			if r.Stride == 1 {
				rs = append(rs, rg{uint32(r.Lo), uint32(r.Hi)})
			} else {
				for c := uint32(r.Lo); c <= uint32(r.Hi); c += uint32(r.Stride) {
					rs = append(rs, rg{c, c})
				}
			}
		}
		for _, r := range t.R32 {
			if r.Stride == 1 {
				rs = append(rs, rg{r.Lo, r.Hi})
			} else {
				for c := r.Lo; c <= r.Hi; c += r.Stride {
					rs = append(rs, rg{c, c})
				}
			}
		}
	}
	sort.Slice(rs, func(i, j int) bool { return rs[i].lo < rs[j].lo })
	var merged []rg
	for _, r := range rs {
		if n := len(merged); n > 0 && r.lo <= merged[n-1].hi+1 {
			if r.hi > merged[n-1].hi {
				merged[n-1].hi = r.hi
			}
		} else {
			merged = append(merged, r)
		}
	}
	return merged
}

// Unicode class predicates handled by lazy refinement: exact-name in terms -> table
type uniPred struct {
	x, u   string // interpreted name used in terms, uninterpreted name used in queries
	ranges []rg
}

var uniPreds = []uniPred{
	{"isLetterX", "isLetterU", mergedRanges(unicode.Letter)},
	{"isMarkX", "isMarkU", mergedRanges(unicode.Mark)},
	{"isDigitX", "isDigitU", mergedRanges(unicode.Digit)},
	{"isNumberX", "isNumberU", mergedRanges(unicode.Number)},
	{"isSpaceX", "isSpaceU", mergedRanges(unicode.White_Space)},
	{"isUpperX", "isUpperU", mergedRanges(unicode.Upper)},
	{"isLowerX", "isLowerU", mergedRanges(unicode.Lower)},
	{"isPunctX", "isPunctU", mergedRanges(unicode.Punct)},
}

func init() {
	for _, p := range uniPreds {
		ufDecls[p.u] = "(declare-fun " + p.u + " ((_ BitVec 32)) Bool)"
	}
}

// constInterval returns the maximal interval around v on which membership is constant.
func constInterval(rs []rg, v uint32) (uint32, uint32, bool) {
	i := sort.Search(len(rs), func(i int) bool { return rs[i].hi >= v })
	if i < len(rs) && rs[i].lo <= v {
		return rs[i].lo, rs[i].hi, true
	}
	lo, hi := uint32(0), uint32(0xFFFFFFFF)
	if i > 0 {
		lo = rs[i-1].hi + 1
	}
	if i < len(rs) {
		hi = rs[i].lo - 1
	}
	return lo, hi, false
}

func rangePred(name string, tabs ...*unicode.RangeTable) string {
	merged := mergedRanges(tabs...)
	// balanced binary decision tree over the sorted ranges keeps the term shallow
	var build func(lo, hi int) string
	build = func(lo, hi int) string {
		if lo == hi {
			r := merged[lo]
			if r.lo == r.hi {
				return fmt.Sprintf("(= c #x%08x)", r.lo)
			}
			return fmt.Sprintf("(and (bvuge c #x%08x) (bvule c #x%08x))", r.lo, r.hi)
		}
		mid := (lo + hi) / 2
		return fmt.Sprintf("(ite (bvule c #x%08x) %s %s)", merged[mid].hi, build(lo, mid), build(mid+1, hi))
	}
	return fmt.Sprintf("(define-fun %s ((c (_ BitVec 32))) Bool %s)", name, build(0, len(merged)-1))
}

func unicodeDef(name string) string {
	unicodeDefsOnce.Do(func() {
		unicodeDefs = map[string]string{}
	})
	return unicodeDefs[name]
}

func baseScript(timeoutMs int) string {
	var b strings.Builder
	fmt.Fprintf(&b, "(set-option :timeout %d)\n", timeoutMs)
	b.WriteString("(set-logic ALL)\n")
	b.WriteString(smtHeader)
	return b.String()
}

func buildScript(asserts []Term, timeoutMs int, kind string, extraSyms ...string) string {
	var b strings.Builder
	inc := kind == "z3inc"
	if inc {
		b.WriteString("(push 1)\n")
	} else {
		b.WriteString("(reset)\n")
		if kind != "cvc5" {
			fmt.Fprintf(&b, "(set-option :timeout %d)\n", timeoutMs)
		} else {
			b.WriteString("(set-option :produce-models true)\n")
		}
		b.WriteString("(set-logic ALL)\n")
		b.WriteString(smtHeader)
	}
	all := make([][]string, len(asserts))
	var text strings.Builder
	for i, a := range asserts {
		all[i] = a.Syms
		text.WriteString(a.S)
		text.WriteByte(' ')
	}
	t := text.String()
	ufs := make([]string, 0, 4)
	ufMu.RLock()
	defer ufMu.RUnlock()
	for name := range ufDecls {
		if strings.Contains(t, "("+name+" ") || strings.Contains(t, " "+name+")") || strings.Contains(t, " "+name+" ") || t == name+" " {
			ufs = append(ufs, name)
		}
	}
	sort.Strings(ufs)
	for _, u := range ufs {
		b.WriteString(ufDecls[u])
		b.WriteByte('\n')
	}
	all = append(all, append([]string{}, extraSyms...))
	sort.Strings(all[len(all)-1])
	for _, s := range mergeSyms(all...) {
		fmt.Fprintf(&b, "(declare-const %s %s)\n", s, sortOfSym(s).smt())
	}
	for _, a := range asserts {
		b.WriteString("(assert ")
		b.WriteString(a.S)
		b.WriteString(")\n")
	}
	return b.String()
}

func (s *Solver) proc(kind string) (*Proc, error) {
	// the process is returned through a local: close() (the race in raceFP killing the loser)
	// may reset the fields at any moment
	switch kind {
	case "cvc5":
		p := s.cvc5
		if p == nil {
			var err error
			p, err = startProc("cvc5")
			if err != nil {
				return nil, err
			}
			s.cvc5 = p
		}
		return p, nil
	case "z3inc":
		p := s.z3inc
		if p == nil {
			var err error
			p, err = startProc(gCfg.Z3)
			if err != nil {
				return nil, err
			}
			p.kind = "z3inc"
			if _, err := p.exchange(baseScript(int(s.timeout/time.Millisecond)), 30*time.Second); err != nil {
				p.kill()
				return nil, err
			}
			s.z3inc = p
		}
		return p, nil
	default:
		p := s.z3
		if p == nil {
			var err error
			p, err = startProc(gCfg.Z3)
			if err != nil {
				return nil, err
			}
			s.z3 = p
		}
		return p, nil
	}
}

func (s *Solver) drop(kind string) {
	if kind == "cvc5" {
		s.cvc5.kill()
		s.cvc5 = nil
	} else if kind == "z3inc" {
		s.z3inc.kill()
		s.z3inc = nil
	} else {
		s.z3.kill()
		s.z3 = nil
	}
}

// unicodeApps extracts, per class predicate, the distinct argument terms of its applications.
func unicodeApps(text string) [][]string {
	out := make([][]string, len(uniPreds))
	for pi, pr := range uniPreds {
		seen := map[string]bool{}
		name := "(" + pr.x + " "
		from := 0
		for {
			k := strings.Index(text[from:], name)
			if k < 0 {
				break
			}
			a := from + k + len(name)
			depth, b := 0, a
			for b < len(text) {
				c := text[b]
				if c == '(' {
					depth++
				} else if c == ')' {
					if depth == 0 {
						break
					}
					depth--
				}
				b++
			}
			arg := text[a:b]
			if !seen[arg] {
				seen[arg] = true
				out[pi] = append(out[pi], arg)
			}
			from = a
		}
	}
	return out
}

// parsePairs reads "((k v) (k v) …)" where keys may be compound terms.
func parsePairs(txt string) [][2]string {
	toks := tokenizeSexp(txt)
	var out [][2]string
	i := 0
	if i < len(toks) && toks[i] == "(" {
		i++
	}
	for i < len(toks) && toks[i] == "(" {
		k, ni := readSexp(toks, i+1)
		v, nj := readSexp(toks, ni)
		out = append(out, [2]string{k, v})
		i = nj
		if i < len(toks) && toks[i] == ")" {
			i++
		}
	}
	return out
}

// runOn returns "sat" | "unsat" | "unknown" | "error: …" and, if syms != nil and the result
// is sat, the model values of those symbols. The Unicode class predicates are handled by
// abstraction refinement: they start as uninterpreted functions (any unsat answer is then
// also unsat for the exact tables); a sat answer is checked against the exact tables at the
// code points of the model and refined with the maximal constant interval around each.
func (s *Solver) runOn(kind string, asserts []Term, syms []string, timeout time.Duration) (string, map[string]string) {
	p, err := s.proc(kind)
	if err != nil {
		return "error: " + err.Error(), nil
	}
	script := buildScript(asserts, int(timeout/time.Millisecond), p.kind, syms...)
	apps := unicodeApps(script)
	cegar := false
	decl := ""
	for pi, pr := range uniPreds {
		if len(apps[pi]) > 0 {
			cegar = true
			script = strings.ReplaceAll(script, "("+pr.x+" ", "("+pr.u+" ")
			decl += ufDecls[pr.u] + "\n"
		}
	}
	if cegar {
		// declarations go right after the prelude: before the first declare-const / assert
		k := strings.Index(script, "(declare-const")
		if k2 := strings.Index(script, "(assert"); k < 0 || (k2 >= 0 && k2 < k) {
			k = k2
		}
		script = script[:k] + decl + script[k:]
	}
	fail := func(msg string) (string, map[string]string) {
		s.drop(kind)
		return msg, nil
	}
	popped := false
	finish := func() {
		if p.kind == "z3inc" && !popped {
			popped = true
			if s.z3inc == p {
				if _, err := p.exchange("(pop 1)", 10*time.Second); err != nil {
					s.drop("z3inc")
				}
			}
		}
	}
	defer finish()
	checkSat := func(batch string) string {
		lines, err := p.exchange(batch+"(check-sat)\n", timeout+5*time.Second)
		if err != nil {
			popped = true
			s.drop(kind)
			if err.Error() == "timeout" {
				return "unknown"
			}
			return "error: " + err.Error()
		}
		res := ""
		for _, l := range lines {
			if strings.HasPrefix(l, "(error") {
				popped = true
				s.drop(kind)
				return "error: " + l
			}
			if l == "sat" || l == "unsat" || l == "unknown" {
				res = l
			}
		}
		if res == "" {
			popped = true
			s.drop(kind)
			return "error: no answer: " + strings.Join(lines, " | ")
		}
		return res
	}
	res := checkSat(script)
	for iter := 0; cegar && res == "sat"; iter++ {
		if iter > 60 {
			return "unknown", nil
		}
		var q []string
		var qp []int
		for pi, pr := range uniPreds {
			for _, a := range apps[pi] {
				q = append(q, a, "("+pr.u+" "+a+")")
				qp = append(qp, pi)
			}
		}
		lines, err := p.exchange("(get-value ("+strings.Join(q, " ")+"))", 20*time.Second)
		if err != nil {
			popped = true
			return fail("error: get-value: " + err.Error())
		}
		txt := strings.Join(lines, " ")
		if strings.Contains(txt, "(error") {
			popped = true
			return fail("error: " + txt)
		}
		pairs := parsePairs(txt)
		if len(pairs) != len(q) {
			popped = true
			return fail(fmt.Sprintf("error: get-value returned %d of %d values: %.200s", len(pairs), len(q), txt))
		}
		var refine strings.Builder
		for i := 0; i < len(pairs); i += 2 {
			pr := uniPreds[qp[i/2]]
			arg := q[i]
			v, _ := bvBits(pairs[i][1])
			got := strings.TrimSpace(pairs[i+1][1]) == "true"
			lo, hi, want := constInterval(pr.ranges, uint32(v))
			if got != want {
				lit := "false"
				if want {
					lit = "true"
				}
				fmt.Fprintf(&refine, "(assert (=> (and (bvuge %s #x%08x) (bvule %s #x%08x)) (= (%s %s) %s)))\n", arg, lo, arg, hi, pr.u, arg, lit)
			}
		}
		if refine.Len() == 0 {
			break
		}
		res = checkSat(refine.String())
	}
	if res != "sat" || len(syms) == 0 {
		return res, nil
	}
	model := map[string]string{}
	for i := 0; i < len(syms); i += 40 {
		j := i + 40
		if j > len(syms) {
			j = len(syms)
		}
		lines, err := p.exchange("(get-value ("+strings.Join(syms[i:j], " ")+"))", 20*time.Second)
		if err != nil {
			popped = true
			return fail("error: get-value: " + err.Error())
		}
		txt := strings.Join(lines, " ")
		if strings.Contains(txt, "(error") {
			popped = true
			return fail("error: " + txt)
		}
		parseModel(txt, model)
	}
	return res, model
}

func usesFP(asserts []Term) bool {
	for _, a := range asserts {
		if strings.Contains(a.S, "fp.") || strings.Contains(a.S, "to_fp") || strings.Contains(a.S, "f2i") {
			return true
		}
	}
	return false
}

// query: is (and pc extra) satisfiable? pc is sliced to the part relevant to extra.
func (s *Solver) query(pc []Term, extra Term) string {
	if extra.isFalse() {
		return "unsat"
	}
	sl := sliceConstraints(pc, extra)
	asserts := append(append([]Term{}, sl...), extra)
	r, _ := s.solve(asserts, nil)
	return r
}

func (s *Solver) solve(asserts []Term, syms []string) (string, map[string]string) {
	key := ""
	if syms == nil {
		var b strings.Builder
		ss := make([]string, len(asserts))
		for i, a := range asserts {
			ss[i] = a.S
		}
		sort.Strings(ss)
		for _, x := range ss {
			b.WriteString(x)
			b.WriteByte('\n')
		}
		key = b.String()
		queryCache.mu.Lock()
		r, ok := queryCache.m[key]
		queryCache.mu.Unlock()
		if ok {
			atomic.AddInt64(&gStats.CacheHits, 1)
			return r, nil
		}
	}
	t0 := time.Now()
	atomic.AddInt64(&gStats.Queries, 1)
	res := "unknown"
	var model map[string]string
	if usesFP(asserts) {
		// floating-point queries: z3 and cvc5 race on fresh processes (measured: sat searches
		// 0.1 s on cvc5 vs 3-7 s on z3, unsat 1.8 s on z3 vs 2.5 s on cvc5); first definite answer wins
		res, model = s.raceFP(asserts, syms)
	} else {
		for _, k := range []string{"z3inc", "z3", "cvc5"} {
			if k == "cvc5" {
				atomic.AddInt64(&gStats.Cvc5Queries, 1)
			}
			res, model = s.runOn(k, asserts, syms, s.timeout)
			if res == "sat" || res == "unsat" {
				break
			}
			if strings.HasPrefix(res, "error") && gCfg.Verbose {
				fmt.Fprintf(os.Stderr, "solver %s: %s\n", k, res)
			}
		}
	}
	if res != "sat" && res != "unsat" && !strings.HasPrefix(res, "error") && time.Since(t0) >= s.timeout*8/10 {
		// a timeout (both solvers ran out of time — typically a loaded machine, not a hard
		// query: no query of the unchanged tree comes near the limit on an idle one): one more
		// attempt with three times the limit before the answer is recorded as unknown
		old := s.timeout
		s.timeout = 3 * old
		if usesFP(asserts) {
			res, model = s.raceFP(asserts, syms)
		} else {
			res, model = s.runOn("z3", asserts, syms, s.timeout)
		}
		s.timeout = old
	}
	dt := time.Since(t0)
	atomic.AddInt64(&gStats.Nanos, int64(dt))
	ms := dt.Milliseconds()
	for {
		old := atomic.LoadInt64(&gStats.SlowestMs)
		if ms <= old || atomic.CompareAndSwapInt64(&gStats.SlowestMs, old, ms) {
			break
		}
	}
	switch {
	case res == "sat":
		atomic.AddInt64(&gStats.Sat, 1)
	case res == "unsat":
		atomic.AddInt64(&gStats.Unsat, 1)
	case res == "unknown":
		atomic.AddInt64(&gStats.Unknown, 1)
	default:
		atomic.AddInt64(&gStats.Errors, 1)
	}
	if key != "" && (res == "sat" || res == "unsat") {
		queryCache.mu.Lock()
		if queryCache.bytes > cacheLimitBytes {
			queryCache.m = map[string]string{}
			queryCache.bytes = 0
		}
		queryCache.m[key] = res
		queryCache.bytes += len(key)
		queryCache.mu.Unlock()
	}
	if gCfg.DumpDir != "" && (ms > int64(gCfg.DumpMs) || (res != "sat" && res != "unsat")) {
		n := atomic.AddInt64(&dumpSeq, 1)
		os.WriteFile(fmt.Sprintf("%s/q%05d_%s_%dms.smt2", gCfg.DumpDir, n, strings.Fields(res)[0], ms), []byte(buildScript(asserts, 60000, "z3")+"(check-sat)\n"), 0o644)
	}
	return res, model
}

var dumpSeq int64

type raceResult struct {
	kind  string
	res   string
	model map[string]string
}

func (s *Solver) raceFP(asserts []Term, syms []string) (string, map[string]string) {
	kinds := []string{"z3", "cvc5"}
	subs := make([]*Solver, len(kinds))
	ch := make(chan raceResult, len(kinds))
	for i, k := range kinds {
		subs[i] = &Solver{timeout: s.timeout}
		go func(sub *Solver, k string) {
			r, m := sub.runOn(k, asserts, syms, s.timeout)
			ch <- raceResult{k, r, m}
		}(subs[i], k)
	}
	atomic.AddInt64(&gStats.Cvc5Queries, 1)
	best := raceResult{res: "unknown"}
	for n := 0; n < len(kinds); n++ {
		r := <-ch
		if r.res == "sat" || r.res == "unsat" {
			best = r
			break
		}
		if strings.HasPrefix(r.res, "error") && gCfg.Verbose {
			fmt.Fprintf(os.Stderr, "solver %s: %s\n", r.kind, r.res)
		}
		if best.res == "unknown" {
			best = r
		}
	}
	for _, sub := range subs {
		sub.close() // kills the loser; its goroutine ends with an error that nobody reads
	}
	if best.res == "sat" || best.res == "unsat" {
		if best.kind == "cvc5" {
			atomic.AddInt64(&gStats.Cvc5Wins, 1)
		}
	}
	return best.res, best.model
}

// model: full (unsliced) solve returning values for syms.
func (s *Solver) model(pc []Term, extra Term, syms []string) (string, map[string]string) {
	asserts := append(append([]Term{}, pc...), extra)
	return s.solve(asserts, syms)
}

// parseModel reads "((a v) (b v) …)" into m.
func parseModel(txt string, m map[string]string) {
	toks := tokenizeSexp(txt)
	// expect ( ( name value ) ... )
	i := 0
	depth := 0
	for i < len(toks) {
		if toks[i] == "(" {
			depth++
			if depth == 2 && i+1 < len(toks) {
				name := toks[i+1]
				// value: either atom or balanced s-expr
				j := i + 2
				val, nj := readSexp(toks, j)
				m[name] = val
				i = nj
				continue
			}
		} else if toks[i] == ")" {
			depth--
		}
		i++
	}
}

func tokenizeSexp(s string) []string {
	var out []string
	i := 0
	for i < len(s) {
		c := s[i]
		switch {
		case c == '(' || c == ')':
			out = append(out, string(c))
			i++
		case c == ' ' || c == '\n' || c == '\t' || c == '\r':
			i++
		case c == '"':
			j := i + 1
			for j < len(s) {
				if s[j] == '"' {
					if j+1 < len(s) && s[j+1] == '"' {
						j += 2
						continue
					}
					break
				}
				j++
			}
			out = append(out, s[i:j+1])
			i = j + 1
		default:
			j := i
			for j < len(s) && !strings.ContainsRune("() \n\t\r", rune(s[j])) {
				j++
			}
			out = append(out, s[i:j])
			i = j
		}
	}
	return out
}

func readSexp(toks []string, i int) (string, int) {
	if i >= len(toks) {
		return "", i
	}
	if toks[i] != "(" {
		return toks[i], i + 1
	}
	depth := 0
	var b strings.Builder
	for i < len(toks) {
		t := toks[i]
		if t == "(" {
			depth++
			if b.Len() > 0 && !strings.HasSuffix(b.String(), "(") {
				b.WriteByte(' ')
			}
			b.WriteString("(")
		} else if t == ")" {
			depth--
			b.WriteString(")")
			if depth == 0 {
				return b.String(), i + 1
			}
		} else {
			if !strings.HasSuffix(b.String(), "(") {
				b.WriteByte(' ')
			}
			b.WriteString(t)
		}
		i++
	}
	return b.String(), i
}
