package main

import (
	"fmt"
	"go/constant"
	"go/token"
	"go/types"
	"sort"
	"strings"
	"sync"
	"time"

	"golang.org/x/tools/go/ssa"
)

// ---- results ---------------------------------------------------------------------------

type AssertStat struct {
	Reached, Folded, Unsat, Sat, Unknown int
}

type VecEntry struct {
	Kind string `json:"kind"`
	Val  string `json:"val"`
}

type Violation struct {
	Job    string     `json:"job"`
	ID     string     `json:"id"`
	Kind   string     `json:"kind"` // assert | panic
	Pos    string     `json:"pos,omitempty"`
	Vector []VecEntry `json:"vector"`
	Trace  []string   `json:"trace,omitempty"`
	Note   string     `json:"note,omitempty"`
	Count  int        `json:"count"`
	// replay outcome
	Replayed   bool   `json:"replayed"`
	Reproduced bool   `json:"reproduced"`
	ReplayOut  string `json:"replay_out,omitempty"`
	ReplayPath string `json:"replay_path,omitempty"`
	Known      string `json:"known,omitempty"`
}

type Job struct {
	Name              string
	Pkg               string
	Func              string
	Args              []int64
	Opts              JobOpts
	fn                *ssa.Function
	mu                sync.Mutex
	Paths, Forks, Cut int64
	Instrs            int64
	Asserts           map[string]*AssertStat
	Reached           map[string]int
	Violations        []*Violation
	violIdx           map[string]*Violation
	Inconclusive      map[string]int
	Funcs             map[string]int64
	PanicChecks       int64 // panic obligations that needed a solver
	PanicSites        map[string]int
	MaxDepth          int
	Samples           []string
	Records           []string
}

type JobOpts struct {
	MaxInstrs     int  `json:"max_instrs,omitempty"`
	LoopFuel      int  `json:"loop_fuel,omitempty"`
	AllPerms      bool `json:"all_perms,omitempty"`
	MaxCallDepth  int  `json:"max_call_depth,omitempty"` // engine frames (default 400)
	MapOrders     int  `json:"map_orders,omitempty"`     // >0: explore only this many (evenly spaced) rotations per map range
	NoSummary     bool `json:"no_summary,omitempty"`
	QueryTimeoutS int  `json:"query_timeout_s,omitempty"`
}

func (j *Job) inconclusive(msg string) {
	j.mu.Lock()
	j.Inconclusive[msg]++
	j.mu.Unlock()
}

// ---- engine ----------------------------------------------------------------------------

type Engine struct {
	prog     *ssa.Program
	pkgs     map[string]*ssa.Package // by package name (repo packages only)
	globals  map[*ssa.Global]int
	base     *State // state after the repo's package initialisers ran
	sizes    types.Sizes
	pureMemo sync.Map
}

type Worker struct {
	e         *Engine
	sol       *Solver
	job       *Job
	sch       *Sched
	fmtActive map[int]bool // containers being formatted (cycle detection in the fmt stub)
}

type pathEnd struct{ why string }

func (w *Worker) endPath(why string) { panic(pathEnd{why}) }

var gDeadline time.Time

// maxForksPerJob bounds the size of one job's exploration (the largest registered thorough
// job forks about 8 million times).
const maxForksPerJob = 20_000_000

// ---- scheduler --------------------------------------------------------------------------

type workItem struct {
	job *Job
	st  *State
}

type Sched struct {
	mu     sync.Mutex
	cond   *sync.Cond
	stack  []workItem
	active int
	closed bool
}

func newSched() *Sched {
	s := &Sched{}
	s.cond = sync.NewCond(&s.mu)
	return s
}

func (s *Sched) push(it workItem) {
	s.mu.Lock()
	s.stack = append(s.stack, it)
	s.mu.Unlock()
	s.cond.Signal()
}

func (s *Sched) pop() (workItem, bool) {
	s.mu.Lock()
	defer s.mu.Unlock()
	for len(s.stack) == 0 {
		if s.active == 0 {
			s.cond.Broadcast()
			return workItem{}, false
		}
		s.cond.Wait()
	}
	it := s.stack[len(s.stack)-1]
	s.stack = s.stack[:len(s.stack)-1]
	s.active++
	return it, true
}

func (s *Sched) done() {
	s.mu.Lock()
	s.active--
	if s.active == 0 && len(s.stack) == 0 {
		s.cond.Broadcast()
	}
	s.mu.Unlock()
}

func (e *Engine) runJobs(jobs []*Job, nworkers int) {
	sch := newSched()
	for _, j := range jobs {
		st := e.base.clone()
		fr := &Frame{fn: j.fn, blk: j.fn.Blocks[0], env: map[ssa.Value]Value{}, visits: map[int]int{}, forks: map[ssa.Instruction]int{}}
		for i, p := range j.fn.Params {
			if i < len(j.Args) {
				w, _ := intWidth(p.Type().Underlying().(*types.Basic))
				fr.env[p] = mkBV(uint64(j.Args[i]), w)
			} else {
				fr.env[p] = zero(p.Type())
			}
		}
		st.frames = []*Frame{fr}
		sch.push(workItem{j, st})
	}
	var wg sync.WaitGroup
	for i := 0; i < nworkers; i++ {
		wg.Add(1)
		go func() {
			defer wg.Done()
			w := &Worker{e: e, sol: newSolver(), sch: sch}
			defer w.sol.close()
			for {
				it, ok := sch.pop()
				if !ok {
					return
				}
				w.job = it.job
				w.sol.timeout = time.Duration(gCfg.QueryTimeoutS) * time.Second
				if it.job.Opts.QueryTimeoutS > 0 {
					w.sol.timeout = time.Duration(it.job.Opts.QueryTimeoutS) * time.Second
				}
				if !gDeadline.IsZero() && time.Now().After(gDeadline) {
					// exploration budget used up: what is left is not explored, and the job says so
					it.job.inconclusive("exploration time budget exhausted with paths left unexplored")
					sch.done()
					continue
				}
				w.runPath(it.st)
				sch.done()
			}
		}()
	}
	wg.Wait()
}

func (w *Worker) push(st *State) {
	w.job.mu.Lock()
	w.job.Forks++
	over := w.job.Forks > maxForksPerJob
	w.job.mu.Unlock()
	if over {
		// path explosion: stop adding work for this job; it ends inconclusive
		w.job.inconclusive(fmt.Sprintf("more than %d forks in one job: exploration cut", maxForksPerJob))
		return
	}
	w.sch.push(workItem{w.job, st})
}

func (w *Worker) runPath(st *State) {
	j := w.job
	defer func() {
		if r := recover(); r != nil {
			switch x := r.(type) {
			case pathEnd:
				j.mu.Lock()
				if x.why == "end" || x.why == "exit" {
					j.Paths++
					if j.Paths <= 2 && len(st.nondets) > 0 {
						j.mu.Unlock()
						w.witness(st)
						j.mu.Lock()
					}
				} else {
					j.Cut++
					j.Reached["cut:"+x.why]++
				}
				j.Instrs += int64(st.instrs)
				j.mu.Unlock()
			case engineErr:
				where := ""
				if len(st.frames) > 0 {
					f := st.top()
					where = " in " + f.fn.String()
					if f.idx > 0 && f.idx <= len(f.blk.Instrs) {
						where += " @ " + w.e.prog.Fset.Position(f.blk.Instrs[f.idx-1].Pos()).String()
					}
				}
				j.inconclusive("engine: " + string(x) + where)
			default:
				panic(r)
			}
		}
	}()
	maxI := j.Opts.MaxInstrs
	if maxI == 0 {
		maxI = 3_000_000
	}
	for {
		f := st.top()
		if f.idx >= len(f.blk.Instrs) {
			panic(engineErr("fell off block"))
		}
		ins := f.blk.Instrs[f.idx]
		f.idx++
		st.instrs++
		if st.instrs > maxI {
			w.exhausted(st, fmt.Sprintf("instruction budget %d exhausted in %s", maxI, f.fn.String()))
		}
		w.step(st, f, ins)
	}
}

// exhausted: a loop of the code under test did not finish within the fuel. After a diagnostic
// has been written this is the "finishes in bounded time" clause of C06 failing (confirmed
// natively by a run that does not terminate); otherwise the bound is too small: inconclusive.
func (w *Worker) exhausted(st *State, msg string) {
	for _, ev := range st.trace {
		if ev.Kind == EvStderr {
			w.report(st, "terminates-after-diagnostic", "assert", mkBool(true))
			w.endPath("nontermination")
		}
	}
	w.job.inconclusive(msg)
	w.endPath("fuel")
}

// ---- feasibility -----------------------------------------------------------------------

// branch decides which sides of a condition are feasible under the path constraint.
func (w *Worker) branch(st *State, c Term) (bool, bool) {
	if b, ok := c.boolVal(); ok {
		return b, !b
	}
	nc := mkNot(c)
	if st.pcSet[c.S] {
		return true, false
	}
	if st.pcSet[nc.S] {
		return false, true
	}
	r1 := w.sol.query(st.pc, c)
	switch r1 {
	case "unsat":
		return false, true // pc is satisfiable by invariant
	case "sat":
	default:
		w.job.inconclusive("branch query " + strings.Fields(r1)[0])
	}
	r2 := w.sol.query(st.pc, nc)
	switch r2 {
	case "unsat":
		return true, false
	case "sat":
	default:
		w.job.inconclusive("branch query " + strings.Fields(r2)[0])
	}
	return true, true
}

func (w *Worker) posOf(p token.Pos) string {
	if !p.IsValid() {
		return "?"
	}
	pos := w.e.prog.Fset.Position(p)
	return fmt.Sprintf("%s:%d", trimRepo(pos.Filename), pos.Line)
}

func trimRepo(f string) string {
	f = strings.TrimPrefix(f, gCfg.Repo+"/")
	return f
}

// obligation: cond is the condition under which the instruction panics. Returns after adding
// (not cond) to the path; ends the path if the panic is certain.
func (w *Worker) obligation(st *State, what string, pos token.Pos, cond Term) {
	if cond.isFalse() {
		return
	}
	site := "panic:" + what + "@" + w.posOf(pos)
	if len(st.frames) > 0 {
		site += " in " + st.top().fn.Name()
	}
	can, cannot := w.branch(st, cond)
	w.job.mu.Lock()
	w.job.PanicChecks++
	w.job.PanicSites[site]++
	w.job.mu.Unlock()
	if can {
		if p := st.procM; p != nil && p.catchDepth > 0 && p.catchDepth < len(st.frames) && !st.exited {
			// inside a modelled process (verifRunMain): the Go runtime prints the panic and a stack
			// trace to stderr and the process exits with status 2. That path goes on in the harness,
			// whose assertions see the crash; the violation itself is reported as an assertion so
			// that the native replay (the real binary run as a child process) can confirm it.
			o := st.clone()
			o.assume(cond)
			w.emit(o, EvStderr, strLit("panic: runtime error: "+what+"\n\ngoroutine 1 [running]:\n"), "", mkBV(0, 64), mkBV(0, 64))
			w.emit(o, EvExit, StrV{}, "", mkBV(2, 64), mkBV(0, 64))
			o.exited = true
			w.report(o, "process-dies-with-a-host-panic", "assert", mkBool(true))
			o.frames = o.frames[:o.procM.catchDepth]
			w.push(o)
		} else {
			w.report(st, site, "panic", cond)
		}
	}
	if !cannot {
		w.endPath("panic")
	}
	st.assume(mkNot(cond))
}

func (w *Worker) report(st *State, id, kind string, cond Term) {
	j := w.job
	j.mu.Lock()
	v := j.violIdx[id]
	if v != nil {
		v.Count++
		if v.Count > gCfg.ModelsPerSite {
			j.mu.Unlock()
			return
		}
	}
	j.mu.Unlock()
	// full model for the nondet symbols of this path
	var syms []string
	for _, n := range st.nondets {
		if n.Sym != "" {
			syms = append(syms, n.Sym)
		}
	}
	res, model := w.sol.model(st.pc, cond, syms)
	if res != "sat" {
		j.inconclusive("model query for " + id + ": " + strings.Fields(res + " ?")[0])
		return
	}
	vec := make([]VecEntry, 0, len(st.nondets))
	for _, n := range st.nondets {
		if n.Sym == "" {
			vec = append(vec, VecEntry{n.Kind, fmt.Sprint(n.Val)})
		} else {
			vec = append(vec, VecEntry{n.Kind, decodeModelValue(n.Kind, model[n.Sym])})
		}
	}
	nv := &Violation{Job: j.Name, ID: id, Kind: kind, Vector: vec, Count: 1, Trace: traceStrings(st)}
	j.mu.Lock()
	if v == nil {
		if old := j.violIdx[id]; old != nil {
			old.Count++
		} else {
			j.violIdx[id] = nv
			j.Violations = append(j.Violations, nv)
		}
	} else {
		// additional distinct model for an already known site
		nv.Count = 0
		j.Violations = append(j.Violations, nv)
	}
	j.mu.Unlock()
}

// witness: a concrete input that drives the real code down this path (reachability witness,
// recorded as an evidence sample).
func (w *Worker) witness(st *State) {
	var syms []string
	for _, n := range st.nondets {
		if n.Sym != "" {
			syms = append(syms, n.Sym)
		}
	}
	res, model := w.sol.model(st.pc, mkBool(true), syms)
	if res != "sat" {
		return
	}
	var parts []string
	for _, n := range st.nondets {
		if n.Sym == "" {
			parts = append(parts, fmt.Sprintf("%s=%d", n.Kind, n.Val))
		} else {
			parts = append(parts, n.Kind+"="+decodeModelValue(n.Kind, model[n.Sym]))
		}
	}
	if len(parts) > 24 {
		parts = append(parts[:24], "…")
	}
	j := w.job
	j.mu.Lock()
	if len(j.Samples) < 4 {
		j.Samples = append(j.Samples, "path witness: "+strings.Join(parts, " ")+" events="+fmt.Sprint(traceStrings(st)))
	}
	j.mu.Unlock()
}

func traceStrings(st *State) []string {
	var out []string
	for _, ev := range st.trace {
		k := map[int]string{EvStdout: "stdout", EvStderr: "stderr", EvProbe: "probe", EvExit: "exit", EvUser: "user"}[ev.Kind]
		s := k
		if ev.Kind == EvProbe || ev.Kind == EvExit || ev.Kind == EvUser {
			s += " " + termShort(ev.A)
		}
		if ev.Kind == EvStderr {
			s += " line=" + termShort(ev.B)
		}
		if ev.Fmt != "" {
			s += fmt.Sprintf(" %q", ev.Fmt)
		}
		out = append(out, s)
	}
	if len(out) > 40 {
		out = out[:40]
	}
	return out
}

func termShort(t Term) string {
	if v, ok := t.intVal(); ok {
		return fmt.Sprint(v)
	}
	s := t.S
	if len(s) > 40 {
		s = s[:40] + "…"
	}
	return s
}

// assertion from a harness
func (w *Worker) assert(st *State, id string, c Term) {
	j := w.job
	j.mu.Lock()
	a := j.Asserts[id]
	if a == nil {
		a = &AssertStat{}
		j.Asserts[id] = a
	}
	a.Reached++
	j.mu.Unlock()
	if c.isTrue() {
		j.mu.Lock()
		a.Folded++
		j.mu.Unlock()
		return
	}
	holds, fails := w.branch(st, c)
	j.mu.Lock()
	if fails {
		a.Sat++
	} else {
		a.Unsat++
	}
	j.mu.Unlock()
	if fails {
		w.report(st, id, "assert", mkNot(c))
	}
	if !holds {
		w.endPath("assert-fails-always")
	}
	st.assume(c)
}

// ---- values of operands -----------------------------------------------------------------

func (w *Worker) konst(c *ssa.Const) Value {
	t := c.Type()
	if c.Value == nil {
		return zero(t)
	}
	b, ok := t.Underlying().(*types.Basic)
	if !ok {
		panic(engineErr("const of type " + t.String()))
	}
	switch {
	case b.Info()&types.IsBoolean != 0:
		return mkBool(constant.BoolVal(c.Value))
	case b.Info()&types.IsString != 0:
		return strLit(constant.StringVal(c.Value))
	case b.Info()&types.IsFloat != 0:
		f, _ := constant.Float64Val(c.Value)
		return mkFP(f)
	case b.Info()&types.IsInteger != 0:
		wd, _ := intWidth(b)
		if v, ok := constant.Int64Val(constant.ToInt(c.Value)); ok {
			return mkBV(uint64(v), wd)
		}
		if v, ok := constant.Uint64Val(constant.ToInt(c.Value)); ok {
			return mkBV(v, wd)
		}
	}
	panic(engineErr("const " + c.String()))
}

func (w *Worker) get(st *State, f *Frame, v ssa.Value) Value {
	switch x := v.(type) {
	case *ssa.Const:
		return w.konst(x)
	case *ssa.Global:
		if id, ok := w.e.globals[x]; ok {
			return Ptr{id: id}
		}
		return Extern{"&" + x.Pkg.Pkg.Path() + "." + x.Name()}
	case *ssa.Function:
		return FuncV{fn: x}
	case *ssa.Builtin:
		panic(engineErr("builtin as value"))
	}
	r, ok := f.env[v]
	if !ok {
		panic(engineErr("unbound value " + v.Name() + " in " + f.fn.String()))
	}
	return r
}

// ---- merging values under a condition ---------------------------------------------------

func iteValue(c Term, a, b Value) (Value, bool) {
	if c.isTrue() {
		return a, true
	}
	if c.isFalse() {
		return b, true
	}
	switch x := a.(type) {
	case Term:
		y, ok := b.(Term)
		if !ok || x.Sort != y.Sort {
			return nil, false
		}
		return mkIte(c, x, y), true
	case StrV:
		y, ok := b.(StrV)
		if !ok {
			return nil, false
		}
		if x.key() == y.key() {
			return x, true
		}
		// same length rune-level strings merge rune-wise
		rx, okx := x.runeLevel()
		ry, oky := y.runeLevel()
		if okx && oky && len(rx) == len(ry) {
			out := make([]Term, len(rx))
			for i := range rx {
				out[i] = mkIte(c, rx[i], ry[i])
			}
			return strRunes(out), true
		}
		return nil, false
	case *Union:
		y, ok := b.(*Union)
		if !ok {
			return nil, false
		}
		out := &Union{Tag: mkIte(c, x.Tag, y.Tag), P: map[int]Value{}}
		for k, pv := range x.P {
			if qv, both := y.P[k]; both {
				m, ok := iteValue(c, pv, qv)
				if !ok {
					return nil, false
				}
				out.P[k] = m
			} else {
				out.P[k] = pv
			}
		}
		for k, qv := range y.P {
			if _, both := x.P[k]; !both {
				out.P[k] = qv
			}
		}
		return out, true
	case Ptr:
		y, ok := b.(Ptr)
		if ok && x.id == y.id && fmt.Sprint(x.path) == fmt.Sprint(y.path) {
			return x, true
		}
		return nil, false
	case SliceV:
		if y, ok := b.(SliceV); ok && x == y {
			return x, true
		}
		return nil, false
	case MapV:
		if y, ok := b.(MapV); ok && x == y {
			return x, true
		}
		return nil, false
	case StructV:
		y, ok := b.(StructV)
		if !ok || len(x) != len(y) {
			return nil, false
		}
		out := make(StructV, len(x))
		for i := range x {
			m, ok := iteValue(c, x[i], y[i])
			if !ok {
				return nil, false
			}
			out[i] = m
		}
		return out, true
	case Tuple:
		y, ok := b.(Tuple)
		if !ok || len(x) != len(y) {
			return nil, false
		}
		out := make(Tuple, len(x))
		for i := range x {
			m, ok := iteValue(c, x[i], y[i])
			if !ok {
				return nil, false
			}
			out[i] = m
		}
		return out, true
	case Extern:
		if y, ok := b.(Extern); ok && x == y {
			return x, true
		}
	case FuncV:
		if y, ok := b.(FuncV); ok && x.fn == y.fn && len(x.bindings) == 0 && len(y.bindings) == 0 {
			return x, true
		}
	case ErrV:
		if y, ok := b.(ErrV); ok && x.Msg.key() == y.Msg.key() {
			return x, true
		}
	}
	return nil, false
}

// ---- equality of Go values ---------------------------------------------------------------

// valueEq returns (equal?, panics?) for Go's == on two values of static type t.
func (w *Worker) valueEq(t types.Type, a, b Value) (Term, Term) {
	switch u := t.Underlying().(type) {
	case *types.Basic:
		switch {
		case u.Info()&types.IsString != 0:
			r, _ := strEq(a.(StrV), b.(StrV))
			return r, mkBool(false)
		case u.Info()&types.IsFloat != 0:
			return fpCmp("fp.eq", a.(Term), b.(Term)), mkBool(false)
		default:
			if pa, ok := a.(Ptr); ok { // unsafe.Pointer
				pb := b.(Ptr)
				return mkBool(pa.id == pb.id && fmt.Sprint(pa.path) == fmt.Sprint(pb.path)), mkBool(false)
			}
			return mkEq(a.(Term), b.(Term)), mkBool(false)
		}
	case *types.Pointer, *types.Chan:
		if ea, ok := a.(Extern); ok {
			eb, ok2 := b.(Extern)
			return mkBool(ok2 && ea == eb), mkBool(false)
		}
		if _, ok := b.(Extern); ok {
			return mkBool(false), mkBool(false)
		}
		pa, pb := a.(Ptr), b.(Ptr)
		return mkBool(pa.id == pb.id && fmt.Sprint(pa.path) == fmt.Sprint(pb.path)), mkBool(false)
	case *types.Interface:
		return w.unionEq(a.(*Union), b.(*Union))
	case *types.Struct:
		sa, sb := a.(StructV), b.(StructV)
		eq, pn := mkBool(true), mkBool(false)
		for i := 0; i < u.NumFields(); i++ {
			e, p := w.valueEq(u.Field(i).Type(), sa[i], sb[i])
			// Go compares fields in order and stops at the first difference; a panic only
			// happens if all earlier fields were equal
			pn = mkOr(pn, mkAnd(eq, p))
			eq = mkAnd(eq, e)
		}
		return eq, pn
	case *types.Array:
		aa, ab := a.(ArrayV), b.(ArrayV)
		eq, pn := mkBool(true), mkBool(false)
		for i := range aa {
			e, p := w.valueEq(u.Elem(), aa[i], ab[i])
			pn = mkOr(pn, mkAnd(eq, p))
			eq = mkAnd(eq, e)
		}
		return eq, pn
	case *types.Slice, *types.Map, *types.Signature:
		// only comparable to nil statically; reaching here is from an interface comparison
		return mkBool(false), mkBool(true)
	}
	panic(engineErr("valueEq on " + t.String()))
}

func comparable_(t types.Type) bool { return types.Comparable(t) }

func (w *Worker) unionEq(a, b *Union) (Term, Term) {
	eq := mkAnd(a.isKind(KNil), b.isKind(KNil))
	pn := mkBool(false)
	for _, k := range a.kindsSorted() {
		pb, ok := b.P[k]
		if !ok {
			continue
		}
		both := mkAnd(a.isKind(k), b.isKind(k))
		if both.isFalse() {
			continue
		}
		t := kinds.typ(k)
		if synth, ok := t.(*types.Named); ok && synth.Obj().Pkg() == nil && synth.Obj().Name() == "verifRType" {
			// reflect.Type values: equal iff they describe the same dynamic type
			eq = mkOr(eq, mkAnd(both, mkEq(a.P[k].(Term), pb.(Term))))
			continue
		}
		if synth, ok := t.(*types.Named); ok && synth.Obj().Pkg() == nil && synth.Obj().Name() == "verifErr" {
			// *errors.errorString-like: pointer identity; distinct error objects are unequal
			ea, eb := a.P[k].(ErrV), pb.(ErrV)
			eq = mkOr(eq, mkAnd(both, mkBool(ea.id == eb.id)))
			continue
		}
		e, p := w.valueEq(t, a.P[k], pb)
		eq = mkOr(eq, mkAnd(both, e))
		pn = mkOr(pn, mkAnd(both, p))
	}
	return eq, pn
}

// ---- step --------------------------------------------------------------------------------

func (w *Worker) gotoSucc(st *State, f *Frame, i int) {
	f.prev, f.blk, f.idx = f.blk, f.blk.Succs[i], 0
	f.visits[f.blk.Index]++
	fuel := w.job.Opts.LoopFuel
	if fuel == 0 {
		fuel = 6000
	}
	if f.visits[f.blk.Index] > fuel {
		w.exhausted(st, fmt.Sprintf("loop fuel %d exhausted at %s block %d", fuel, f.fn.String(), f.blk.Index))
	}
}

func (w *Worker) step(st *State, f *Frame, ins ssa.Instruction) {
	switch x := ins.(type) {
	case *ssa.DebugRef:
	case *ssa.Phi:
		// all phis of a block read their operands simultaneously
		vals := map[*ssa.Phi]Value{}
		i := f.idx - 1
		for ; i < len(f.blk.Instrs); i++ {
			p, ok := f.blk.Instrs[i].(*ssa.Phi)
			if !ok {
				break
			}
			for k, pred := range f.blk.Preds {
				if pred == f.prev {
					vals[p] = w.get(st, f, p.Edges[k])
				}
			}
		}
		for p, v := range vals {
			f.env[p] = v
		}
		f.idx = i
	case *ssa.Jump:
		w.gotoSucc(st, f, 0)
	case *ssa.If:
		c := w.get(st, f, x.Cond).(Term)
		t, e := w.branch(st, c)
		switch {
		case t && e:
			// a branch that stays undecided every time round a loop is an unbounded symbolic
			// loop: stop unrolling it (inconclusive) instead of forking without end
			f.forks[ins]++
			if f.forks[ins] > 96 {
				w.exhausted(st, fmt.Sprintf("symbolic loop unrolled 96 times at %s in %s", w.posOf(x.Cond.Pos()), f.fn.String()))
			}
			if gCfg.Verbose {
				w.job.mu.Lock()
				w.job.Reached["fork@"+f.fn.Name()+":"+w.posOf(x.Cond.Pos())]++
				w.job.mu.Unlock()
			}
			o := st.clone()
			o.assume(mkNot(c))
			of := o.top()
			of.prev, of.blk, of.idx = of.blk, of.blk.Succs[1], 0
			of.visits[of.blk.Index]++
			w.push(o)
			st.assume(c)
			w.gotoSucc(st, f, 0)
		case t:
			w.gotoSucc(st, f, 0)
		case e:
			w.gotoSucc(st, f, 1)
		default:
			w.endPath("infeasible")
		}
	case *ssa.Return:
		var rv Value
		if len(x.Results) == 1 {
			rv = w.get(st, f, x.Results[0])
		} else if len(x.Results) > 1 {
			t := make(Tuple, len(x.Results))
			for i, r := range x.Results {
				t[i] = w.get(st, f, r)
			}
			rv = t
		}
		w.doReturn(st, f, rv)
	case *ssa.Panic:
		w.obligation(st, "explicit-panic", x.Pos(), mkBool(true))
	case *ssa.BinOp:
		f.env[x] = w.binop(st, x, w.get(st, f, x.X), w.get(st, f, x.Y))
	case *ssa.UnOp:
		f.env[x] = w.unop(st, f, x)
	case *ssa.Alloc:
		f.env[x] = Ptr{id: st.alloc(zero(x.Type().(*types.Pointer).Elem()))}
	case *ssa.FieldAddr:
		p := w.ptr(st, w.get(st, f, x.X), x.Pos())
		f.env[x] = Ptr{p.id, append(append(make([]int, 0, len(p.path)+1), p.path...), x.Field)}
	case *ssa.Field:
		f.env[x] = w.get(st, f, x.X).(StructV)[x.Field]
	case *ssa.IndexAddr:
		w.indexAddr(st, f, x)
	case *ssa.Index:
		w.index(st, f, x)
	case *ssa.Store:
		addr := w.get(st, f, x.Addr)
		if _, ok := addr.(Extern); ok {
			break // stores to foreign globals are not modelled
		}
		st.store(w.ptr(st, addr, x.Pos()), w.get(st, f, x.Val))
	case *ssa.Slice:
		w.sliceOp(st, f, x)
	case *ssa.MakeSlice:
		n := w.concreteInt(st, w.get(st, f, x.Len).(Term), "make len")
		c := w.concreteInt(st, w.get(st, f, x.Cap).(Term), "make cap")
		if c < n {
			c = n
		}
		arr := make(ArrayV, c)
		fillZero(arr, 0, x.Type().Underlying().(*types.Slice).Elem())
		f.env[x] = SliceV{st.alloc(arr), 0, int(n), int(c)}
	case *ssa.MakeMap:
		f.env[x] = MapV{st.alloc(&MapObj{})}
	case *ssa.MakeClosure:
		fv := FuncV{fn: x.Fn.(*ssa.Function)}
		for _, b := range x.Bindings {
			fv.bindings = append(fv.bindings, w.get(st, f, b))
		}
		f.env[x] = fv
	case *ssa.MakeInterface:
		f.env[x] = mkUnion(x.X.Type(), w.get(st, f, x.X))
	case *ssa.ChangeInterface:
		f.env[x] = w.get(st, f, x.X)
	case *ssa.ChangeType:
		f.env[x] = w.get(st, f, x.X)
	case *ssa.Convert:
		f.env[x] = w.convert(st, x, w.get(st, f, x.X))
	case *ssa.TypeAssert:
		w.typeAssert(st, f, x)
	case *ssa.Extract:
		f.env[x] = w.get(st, f, x.Tuple).(Tuple)[x.Index]
	case *ssa.MapUpdate:
		w.mapUpdate(st, f, x)
	case *ssa.Lookup:
		w.lookup(st, f, x)
	case *ssa.Range:
		w.rangeOp(st, f, x)
	case *ssa.Next:
		w.next(st, f, x)
	case *ssa.Call:
		w.callInstr(st, f, x)
	case *ssa.Defer:
		// defer of a plain function or closure (no panics to recover: a panic is an obligation that
		// ends the path): the call is registered with its arguments evaluated now
		c := x.Call
		if c.IsInvoke() {
			panic(engineErr("defer of an interface method"))
		}
		fv, ok := w.get(st, f, c.Value).(FuncV)
		if !ok || fv.fn == nil {
			panic(engineErr("defer of something that is not a function"))
		}
		d := deferred{fn: fv.fn, bindings: fv.bindings}
		for _, a := range c.Args {
			d.args = append(d.args, w.get(st, f, a))
		}
		f.defers = append(append([]deferred{}, f.defers...), d)
	case *ssa.RunDefers:
		ds := f.defers
		f.defers = nil
		for i := len(ds) - 1; i >= 0; i-- {
			if full := ds[i].fn.String(); full == "(*os.File).Close" {
				continue // closing the script file: no effect in the process model
			}
			if len(ds[i].fn.Blocks) == 0 {
				panic(engineErr("deferred call of an external function"))
			}
			w.callSync(st, ds[i].fn, ds[i].args, ds[i].bindings...)
		}
	case *ssa.Go, *ssa.Select, *ssa.Send, *ssa.MakeChan:
		panic(engineErr(fmt.Sprintf("unsupported instruction %T", ins)))
	default:
		panic(engineErr(fmt.Sprintf("unsupported instruction %T: %v", ins, ins)))
	}
}

func (w *Worker) doReturn(st *State, f *Frame, rv Value) {
	j := w.job
	if n := len(st.frames); n > j.MaxDepth {
		j.MaxDepth = n
	}
	st.frames = st.frames[:len(st.frames)-1]
	if len(st.frames) == 0 {
		w.endPath("end")
	}
	if f.retTo != nil {
		st.top().env[f.retTo] = rv
	}
}

func (w *Worker) ptr(st *State, v Value, pos token.Pos) Ptr {
	p, ok := v.(Ptr)
	if !ok {
		panic(engineErr(fmt.Sprintf("pointer expected, got %T", v)))
	}
	if p.id == 0 {
		w.obligation(st, "nil-dereference", pos, mkBool(true))
	}
	return p
}

// concreteInt demands a concrete integer (sizes, capacities).
func (w *Worker) concreteInt(st *State, t Term, what string) int64 {
	v, ok := t.intVal()
	if !ok {
		panic(engineErr("symbolic " + what))
	}
	return v
}

// caseSplit makes a symbolic integer concrete by forking over its feasible values in
// [lo,hi]; values outside are covered by a panic obligation issued by the caller beforehand.
// The current state continues with the first feasible value.
func (w *Worker) caseSplit(st *State, t Term, lo, hi int64) int64 {
	if v, ok := t.intVal(); ok {
		return v
	}
	wd := t.Sort.width()
	var feas []int64
	for v := lo; v <= hi; v++ {
		c := mkEq(t, mkBV(uint64(v), wd))
		if can, _ := w.branch(st, c); can {
			feas = append(feas, v)
		}
	}
	if len(feas) == 0 {
		w.endPath("infeasible")
	}
	for _, v := range feas[1:] {
		o := st.clone()
		o.assume(mkEq(t, mkBV(uint64(v), wd)))
		// re-execute the current instruction in the clone with the value now determined
		of := o.top()
		of.idx--
		o.instrs--
		w.push(o)
	}
	st.assume(mkEq(t, mkBV(uint64(feas[0]), wd)))
	return feas[0]
}

// resolveInt: like caseSplit but also rewrites nothing; callers re-read the operand, which
// is still symbolic, so we return the chosen value and they use it directly.

func (w *Worker) indexAddr(st *State, f *Frame, x *ssa.IndexAddr) {
	idx := w.get(st, f, x.Index).(Term)
	if idx.Sort != SBV64 {
		_, signed := intWidth(x.Index.Type().Underlying().(*types.Basic))
		idx = bvResize(idx, 64, signed)
	}
	switch b := w.get(st, f, x.X).(type) {
	case Ptr: // pointer to array
		p := w.ptr(st, b, x.Pos())
		n := int64(x.X.Type().Underlying().(*types.Pointer).Elem().Underlying().(*types.Array).Len())
		w.obligation(st, "index-out-of-range", x.Pos(), mkOr(bvCmp("bvslt", idx, mkBV(0, 64)), bvCmp("bvsge", idx, mkBV(uint64(n), 64))))
		i := w.caseSplit(st, idx, 0, n-1)
		f.env[x] = Ptr{p.id, append(append(make([]int, 0, len(p.path)+1), p.path...), int(i))}
	case SliceV:
		w.obligation(st, "index-out-of-range", x.Pos(), mkOr(bvCmp("bvslt", idx, mkBV(0, 64)), bvCmp("bvsge", idx, mkBV(uint64(b.n), 64))))
		i := w.caseSplit(st, idx, 0, int64(b.n)-1)
		f.env[x] = Ptr{b.id, []int{b.off + int(i)}}
	default:
		panic(engineErr(fmt.Sprintf("IndexAddr on %T", b)))
	}
}

func (w *Worker) index(st *State, f *Frame, x *ssa.Index) {
	idx := w.get(st, f, x.Index).(Term)
	if idx.Sort != SBV64 {
		signed := true
		if bt, ok := x.Index.Type().Underlying().(*types.Basic); ok {
			_, signed = intWidth(bt)
		}
		idx = bvResize(idx, 64, signed)
	}
	switch b := w.get(st, f, x.X).(type) {
	case ArrayV:
		w.obligation(st, "index-out-of-range", x.Pos(), mkOr(bvCmp("bvslt", idx, mkBV(0, 64)), bvCmp("bvsge", idx, mkBV(uint64(len(b)), 64))))
		i := w.caseSplit(st, idx, 0, int64(len(b))-1)
		f.env[x] = b[i]
	case StrV:
		s, ok := b.concrete()
		if !ok {
			panic(engineErr("byte index into symbolic string"))
		}
		w.obligation(st, "index-out-of-range", x.Pos(), mkOr(bvCmp("bvslt", idx, mkBV(0, 64)), bvCmp("bvsge", idx, mkBV(uint64(len(s)), 64))))
		i := w.caseSplit(st, idx, 0, int64(len(s))-1)
		f.env[x] = mkBV(uint64(s[i]), 8)
	default:
		panic(engineErr(fmt.Sprintf("Index on %T", b)))
	}
}

func (w *Worker) sliceOp(st *State, f *Frame, x *ssa.Slice) {
	bound := func(v ssa.Value, def int64, lo, hi int64, other Term) (int64, Term) {
		if v == nil {
			return def, mkBV(uint64(def), 64)
		}
		t := w.get(st, f, v).(Term)
		if t.Sort != SBV64 {
			t = bvResize(t, 64, true)
		}
		return 0, t
	}
	_ = bound
	getB := func(v ssa.Value) (Term, bool) {
		if v == nil {
			return Term{}, false
		}
		t := w.get(st, f, v).(Term)
		if t.Sort != SBV64 {
			t = bvResize(t, 64, true)
		}
		return t, true
	}
	maxT, hasMax := getB(x.Max)
	switch b := w.get(st, f, x.X).(type) {
	case Ptr: // pointer to array
		if hasMax {
			panic(engineErr("3-index slice of an array"))
		}
		p := w.ptr(st, b, x.Pos())
		if len(p.path) != 0 {
			panic(engineErr("slice of nested array"))
		}
		n := int64(len(st.heap[p.id].(ArrayV)))
		lo, hi := int64(0), n
		if t, ok := getB(x.Low); ok {
			lo = w.concreteInt(st, t, "slice low")
		}
		if t, ok := getB(x.High); ok {
			hi = w.concreteInt(st, t, "slice high")
		}
		if lo < 0 || hi > n || lo > hi {
			w.obligation(st, "slice-bounds", x.Pos(), mkBool(true))
		}
		f.env[x] = SliceV{p.id, int(lo), int(hi - lo), int(n - lo)}
	case SliceV:
		loT, hasLo := getB(x.Low)
		hiT, hasHi := getB(x.High)
		if !hasLo {
			loT = mkBV(0, 64)
		}
		if !hasHi {
			hiT = mkBV(uint64(b.n), 64)
		}
		capT := mkBV(uint64(b.cap), 64)
		w.obligation(st, "slice-bounds", x.Pos(), mkOr(bvCmp("bvslt", loT, mkBV(0, 64)), bvCmp("bvsgt", hiT, capT), bvCmp("bvsgt", loT, hiT)))
		lo := w.caseSplit(st, loT, 0, int64(b.cap))
		hi := w.caseSplit(st, hiT, lo, int64(b.cap))
		newCap := b.cap - int(lo)
		if hasMax {
			w.obligation(st, "slice-bounds", x.Pos(), mkOr(bvCmp("bvsgt", maxT, capT), bvCmp("bvslt", maxT, mkBV(uint64(hi), 64))))
			mx := w.caseSplit(st, maxT, hi, int64(b.cap))
			newCap = int(mx - lo)
		}
		if b.id == 0 {
			f.env[x] = SliceV{}
			return
		}
		f.env[x] = SliceV{b.id, b.off + int(lo), int(hi - lo), newCap}
	case StrV:
		s, ok := b.concrete()
		if !ok {
			// rune-level strings of ASCII-constrained runes could be sliced; not needed so far
			panic(engineErr("slice of symbolic string"))
		}
		lo, hi := int64(0), int64(len(s))
		if t, ok := getB(x.Low); ok {
			lo = w.concreteInt(st, t, "string slice low")
		}
		if t, ok := getB(x.High); ok {
			hi = w.concreteInt(st, t, "string slice high")
		}
		if lo < 0 || hi > int64(len(s)) || lo > hi {
			w.obligation(st, "slice-bounds", x.Pos(), mkBool(true))
		}
		f.env[x] = strLit(s[lo:hi])
	default:
		panic(engineErr(fmt.Sprintf("Slice on %T", b)))
	}
}

func (w *Worker) unop(st *State, f *Frame, x *ssa.UnOp) Value {
	a := w.get(st, f, x.X)
	switch x.Op {
	case token.NOT:
		return mkNot(a.(Term))
	case token.SUB:
		t := a.(Term)
		if t.Sort == SFP {
			return fpNeg(t)
		}
		return bvNeg(t)
	case token.XOR:
		return bvNot(a.(Term))
	case token.MUL:
		if e, ok := a.(Extern); ok {
			return w.loadExtern(st, e, x.Type())
		}
		return st.load(w.ptr(st, a, x.Pos()))
	}
	panic(engineErr("unop " + x.Op.String()))
}

func (w *Worker) binop(st *State, x *ssa.BinOp, a, b Value) Value {
	op := x.Op
	t := x.X.Type()
	switch op {
	case token.EQL, token.NEQ:
		var eq, pn Term
		// comparisons against nil for slices/maps/funcs
		switch av := a.(type) {
		case SliceV:
			bv := b.(SliceV)
			eq, pn = mkBool(av.id == 0 && bv.id == 0), mkBool(false)
		case MapV:
			bv := b.(MapV)
			eq, pn = mkBool(av.id == 0 && bv.id == 0), mkBool(false)
		case FuncV:
			bv := b.(FuncV)
			eq, pn = mkBool(av.fn == nil && bv.fn == nil), mkBool(false)
		default:
			eq, pn = w.valueEq(t, a, b)
		}
		w.obligation(st, "comparing-uncomparable", x.Pos(), pn)
		if op == token.NEQ {
			return mkNot(eq)
		}
		return eq
	}
	if sa, ok := a.(StrV); ok {
		sb := b.(StrV)
		if op == token.ADD {
			return strCat(sa, sb)
		}
		ca, oka := sa.concrete()
		cb, okb := sb.concrete()
		if oka && okb {
			switch op {
			case token.LSS:
				return mkBool(ca < cb)
			case token.LEQ:
				return mkBool(ca <= cb)
			case token.GTR:
				return mkBool(ca > cb)
			case token.GEQ:
				return mkBool(ca >= cb)
			}
		}
		panic(engineErr("string " + op.String() + " on symbolic strings"))
	}
	ta, tb := a.(Term), b.(Term)
	switch ta.Sort {
	case SBool:
		switch op {
		case token.AND, token.LAND:
			return mkAnd(ta, tb)
		case token.OR, token.LOR:
			return mkOr(ta, tb)
		}
	case SFP:
		switch op {
		case token.ADD:
			return fpBin("fp.add", ta, tb)
		case token.SUB:
			return fpBin("fp.sub", ta, tb)
		case token.MUL:
			return fpBin("fp.mul", ta, tb)
		case token.QUO:
			return fpBin("fp.div", ta, tb)
		case token.LSS:
			return fpCmp("fp.lt", ta, tb)
		case token.LEQ:
			return fpCmp("fp.leq", ta, tb)
		case token.GTR:
			return fpCmp("fp.gt", ta, tb)
		case token.GEQ:
			return fpCmp("fp.geq", ta, tb)
		}
	default:
		bt, ok := t.Underlying().(*types.Basic)
		if !ok {
			panic(engineErr("binop on " + t.String()))
		}
		_, signed := intWidth(bt)
		wd := ta.Sort.width()
		switch op {
		case token.ADD:
			return bvBin("bvadd", ta, tb, signed)
		case token.SUB:
			return bvBin("bvsub", ta, tb, signed)
		case token.MUL:
			return bvBin("bvmul", ta, tb, signed)
		case token.AND:
			return bvBin("bvand", ta, tb, signed)
		case token.OR:
			return bvBin("bvor", ta, tb, signed)
		case token.XOR:
			return bvBin("bvxor", ta, tb, signed)
		case token.AND_NOT:
			return bvBin("bvand", ta, bvNot(tb), signed)
		case token.QUO, token.REM:
			w.obligation(st, "integer-divide-by-zero", x.Pos(), mkEq(tb, mkBV(0, wd)))
			if signed {
				if op == token.QUO {
					return bvBin("bvsdiv", ta, tb, true)
				}
				return bvBin("bvsrem", ta, tb, true)
			}
			if op == token.QUO {
				return bvBin("bvudiv", ta, tb, false)
			}
			return bvBin("bvurem", ta, tb, false)
		case token.SHL, token.SHR:
			// shift count has its own type
			ct := x.Y.Type().Underlying().(*types.Basic)
			cw, csigned := intWidth(ct)
			cnt := tb
			if csigned {
				w.obligation(st, "negative-shift-amount", x.Pos(), bvCmp("bvslt", cnt, mkBV(0, cw)))
			}
			// bring the count to the operand width, saturating
			var c Term
			if cw > wd {
				big := bvCmp("bvuge", cnt, mkBV(uint64(wd), cw))
				c = mkIte(big, mkBV(uint64(wd), wd), bvResize(cnt, wd, false))
			} else {
				c = bvResize(cnt, wd, false)
			}
			if op == token.SHL {
				return bvBin("bvshl", ta, c, signed)
			}
			if signed {
				return bvBin("bvashr", ta, c, true)
			}
			return bvBin("bvlshr", ta, c, false)
		case token.LSS, token.LEQ, token.GTR, token.GEQ:
			names := map[token.Token][2]string{token.LSS: {"bvslt", "bvult"}, token.LEQ: {"bvsle", "bvule"}, token.GTR: {"bvsgt", "bvugt"}, token.GEQ: {"bvsge", "bvuge"}}[op]
			if signed {
				return bvCmp(names[0], ta, tb)
			}
			return bvCmp(names[1], ta, tb)
		}
	}
	panic(engineErr(fmt.Sprintf("binop %v on sort %v", op, ta.Sort)))
}

func (w *Worker) convert(st *State, x *ssa.Convert, v Value) Value {
	from, to := x.X.Type().Underlying(), x.Type().Underlying()
	switch tt := to.(type) {
	case *types.Basic:
		switch {
		case tt.Info()&types.IsString != 0:
			switch fv := v.(type) {
			case StrV:
				return fv
			case SliceV: // []rune or []byte
				if fv.n == -1 { // file content pseudo slice (os.ReadFile stub)
					return st.heap[fv.id].(ArrayV)[0].(StrV)
				}
				el := from.(*types.Slice).Elem().Underlying().(*types.Basic)
				elems := st.sliceElems(fv)
				if el.Kind() == types.Int32 {
					rs := make([]Term, len(elems))
					for i, e := range elems {
						rs[i] = e.(Term)
					}
					return strRunes(rs)
				}
				bs := make([]byte, len(elems))
				for i, e := range elems {
					bv, ok := e.(Term).bvVal()
					if !ok {
						panic(engineErr("string(symbolic bytes)"))
					}
					bs[i] = byte(bv)
				}
				return strLit(string(bs))
			case Term: // string(rune)
				return StrV{[]Seg{runeSeg(bvResize(fv, 32, true))}}
			}
		case tt.Info()&types.IsFloat != 0:
			t := v.(Term)
			if t.Sort == SFP {
				if tt.Kind() == types.Float32 {
					panic(engineErr("float32"))
				}
				return t
			}
			fb := from.(*types.Basic)
			_, signed := intWidth(fb)
			if !signed && t.Sort == SBV64 {
				if x, ok := t.bvVal(); ok {
					return mkFP(float64(x))
				}
				return Term{S: "((_ to_fp_unsigned 11 53) RNE " + t.S + ")", Sort: SFP, Syms: t.Syms}
			}
			return int64ToFP(bvResize(t, 64, signed))
		case tt.Info()&types.IsInteger != 0:
			t := v.(Term)
			wd, tsigned := intWidth(tt)
			if t.Sort == SFP {
				if wd != 64 || !tsigned {
					// Go converts via int64 truncation on amd64 for narrower signed types; keep exact cases only
					if wd == 64 && !tsigned {
						panic(engineErr("float->uint64"))
					}
					return bvResize(fpToInt64(t), wd, true)
				}
				return fpToInt64(t)
			}
			fb := from.(*types.Basic)
			_, fsigned := intWidth(fb)
			return bvResize(t, wd, fsigned)
		case tt.Kind() == types.UnsafePointer:
			return v
		}
	case *types.Slice:
		el := tt.Elem().Underlying().(*types.Basic)
		if sv, ok := v.(StrV); ok {
			if el.Kind() == types.Int32 {
				rs, ok := sv.runeLevel()
				if !ok {
					panic(engineErr("[]rune(opaque string)"))
				}
				elems := make([]Value, len(rs))
				for i, r := range rs {
					elems[i] = r
				}
				if len(elems) == 0 {
					// []rune("") is a non-nil empty slice
					return SliceV{id: st.alloc(ArrayV{}), off: 0, n: 0, cap: 0}
				}
				return st.newSlice(elems, runeSliceCap(len(elems)))
			}
			s, ok := sv.concrete()
			if !ok {
				panic(engineErr("[]byte(symbolic string)"))
			}
			elems := make([]Value, len(s))
			for i := 0; i < len(s); i++ {
				elems[i] = mkBV(uint64(s[i]), 8)
			}
			return st.newSlice(elems, len(elems))
		}
	case *types.Pointer:
		return v
	}
	panic(engineErr(fmt.Sprintf("convert %s -> %s", x.X.Type(), x.Type())))
}

func runeSliceCap(n int) int {
	// stringtoslicerune allocates roundupsize(n*4)/4 elements
	return int(roundupsize(uintptr(n)*4) / 4)
}

func (w *Worker) typeAssert(st *State, f *Frame, x *ssa.TypeAssert) {
	u, ok := w.get(st, f, x.X).(*Union)
	if !ok {
		panic(engineErr("TypeAssert on non-interface value"))
	}
	var res Value
	var okT Term
	if iface, isI := x.AssertedType.Underlying().(*types.Interface); isI {
		conds := []Term{}
		out := &Union{P: map[int]Value{}}
		for _, k := range u.kindsSorted() {
			if kindImplements(k, iface) {
				conds = append(conds, u.isKind(k))
				out.P[k] = u.P[k]
			}
		}
		okT = mkOr(conds...)
		out.Tag = mkIte(okT, u.Tag, mkBV(KNil, 8))
		res = out
	} else {
		k := kinds.of(x.AssertedType)
		okT = u.isKind(k)
		if p, has := u.P[k]; has {
			res = p
		} else {
			res = zero(x.AssertedType)
		}
	}
	if x.CommaOk {
		f.env[x] = Tuple{res, okT}
		return
	}
	w.obligation(st, "failed-type-assertion", x.Pos(), mkNot(okT))
	f.env[x] = res
}

var errorIface = types.Universe.Lookup("error").Type().Underlying().(*types.Interface)

func kindImplements(k int, iface *types.Interface) bool {
	if k == KNil {
		return false
	}
	t := kinds.typ(k)
	if n, ok := t.(*types.Named); ok && n.Obj().Pkg() == nil && n.Obj().Name() == "verifRType" {
		return true
	}
	if n, ok := t.(*types.Named); ok && n.Obj().Pkg() == nil && n.Obj().Name() == "verifErr" {
		return iface.NumMethods() == 0 || types.Identical(iface, errorIface) || (iface.NumMethods() == 1 && iface.Method(0).Name() == "Error")
	}
	return types.Implements(t, iface)
}

// ---- maps --------------------------------------------------------------------------------

func (w *Worker) keyEq(a, b Value) Term {
	switch x := a.(type) {
	case StrV:
		r, exact := strEq(x, b.(StrV))
		if !exact {
			panic(engineErr("map key comparison on opaque strings"))
		}
		return r
	case Term:
		if x.Sort == SFP {
			return fpCmp("fp.eq", x, b.(Term))
		}
		return mkEq(x, b.(Term))
	case Ptr:
		y := b.(Ptr)
		return mkBool(x.id == y.id && fmt.Sprint(x.path) == fmt.Sprint(y.path))
	}
	panic(engineErr(fmt.Sprintf("map key of %T", a)))
}

func (w *Worker) mapObj(st *State, m MapV) *MapObj {
	if m.id == 0 {
		return &MapObj{}
	}
	return st.heap[m.id].(*MapObj)
}

func (w *Worker) lookup(st *State, f *Frame, x *ssa.Lookup) {
	xv := w.get(st, f, x.X)
	if sv, ok := xv.(StrV); ok { // string indexing s[i]
		s, okc := sv.concrete()
		idx := w.get(st, f, x.Index).(Term)
		if !okc {
			panic(engineErr("byte index into symbolic string"))
		}
		w.obligation(st, "index-out-of-range", x.Pos(), mkOr(bvCmp("bvslt", idx, mkBV(0, 64)), bvCmp("bvsge", idx, mkBV(uint64(len(s)), 64))))
		i := w.caseSplit(st, idx, 0, int64(len(s))-1)
		f.env[x] = mkBV(uint64(s[i]), 8)
		return
	}
	m := xv.(MapV)
	mo := w.mapObj(st, m)
	key := w.get(st, f, x.Index)
	elemT := x.X.Type().Underlying().(*types.Map).Elem()
	var res Value = zero(elemT)
	found := mkBool(false)
	symbolic := false
	conds := make([]Term, len(mo.keys))
	for i := range mo.keys {
		conds[i] = w.keyEq(mo.keys[i], key)
		if !conds[i].IsLit() {
			symbolic = true
		}
	}
	if !symbolic {
		for i, c := range conds {
			if c.isTrue() {
				res, found = mo.vals[i], mkBool(true)
			}
		}
	} else {
		// merge scalar elements into an ite; interface-typed elements (Borno values in an
		// environment or object) fork instead, so that later formatting and type switches see
		// a definite value on each path (the oracles fork on the same key equalities anyway)
		merged := !isInterface(elemT)
		acc := res
		for i := len(conds) - 1; merged && i >= 0; i-- {
			if conds[i].isFalse() {
				continue
			}
			m2, ok := iteValue(conds[i], mo.vals[i], acc)
			if !ok {
				merged = false
				break
			}
			acc = m2
		}
		if merged {
			res, found = acc, mkOr(conds...)
		} else {
			// fork: one successor per feasible matching entry, the current state takes "none"
			for i, c := range conds {
				if c.isFalse() {
					continue
				}
				if can, _ := w.branch(st, c); can {
					o := st.clone()
					o.assume(c)
					of := o.top()
					if x.CommaOk {
						of.env[x] = Tuple{mo.vals[i], mkBool(true)}
					} else {
						of.env[x] = mo.vals[i]
					}
					w.push(o)
				}
			}
			none := mkNot(mkOr(conds...))
			if can, _ := w.branch(st, none); !can {
				w.endPath("infeasible")
			}
			st.assume(none)
		}
	}
	if x.CommaOk {
		f.env[x] = Tuple{res, found}
	} else {
		f.env[x] = res
	}
}

func (w *Worker) mapUpdate(st *State, f *Frame, x *ssa.MapUpdate) {
	m := w.get(st, f, x.Map).(MapV)
	if m.id == 0 {
		w.obligation(st, "assignment-to-nil-map", x.Pos(), mkBool(true))
	}
	mo := st.heap[m.id].(*MapObj)
	key, val := w.get(st, f, x.Key), w.get(st, f, x.Value)
	w.mapStore(st, mo, key, val)
}

func (w *Worker) mapStore(st *State, mo *MapObj, key, val Value) {
	var sym []int
	for i := range mo.keys {
		c := w.keyEq(mo.keys[i], key)
		if c.isTrue() {
			mo.vals[i] = val
			return
		}
		if !c.isFalse() {
			sym = append(sym, i)
		}
	}
	if len(sym) == 0 {
		mo.keys = append(mo.keys, key)
		mo.vals = append(mo.vals, val)
		return
	}
	// symbolic key: fork over "equals entry i" / "new key"
	var none []Term
	for _, i := range sym {
		c := w.keyEq(mo.keys[i], key)
		none = append(none, mkNot(c))
		if can, _ := w.branch(st, c); can {
			o := st.clone()
			o.assume(c)
			// the clone has its own copy of the map object; find it again through the heap
			for id, ov := range st.heap {
				if ov == Value(mo) {
					omo := o.heap[id].(*MapObj)
					omo.vals[i] = val
				}
			}
			w.push(o)
		}
	}
	nn := mkAnd(none...)
	if can, _ := w.branch(st, nn); !can {
		w.endPath("infeasible")
	}
	st.assume(nn)
	mo.keys = append(mo.keys, key)
	mo.vals = append(mo.vals, val)
}

func (w *Worker) mapDelete(st *State, m MapV, key Value) {
	if m.id == 0 {
		return
	}
	mo := st.heap[m.id].(*MapObj)
	for i := range mo.keys {
		c := w.keyEq(mo.keys[i], key)
		if c.isTrue() {
			mo.keys = append(append([]Value{}, mo.keys[:i]...), mo.keys[i+1:]...)
			mo.vals = append(append([]Value{}, mo.vals[:i]...), mo.vals[i+1:]...)
			return
		}
		if !c.isFalse() {
			panic(engineErr("delete with symbolic key"))
		}
	}
}

func permutations(n int) [][]int {
	if n == 0 {
		return [][]int{{}}
	}
	var out [][]int
	var rec func(cur []int, used []bool)
	rec = func(cur []int, used []bool) {
		if len(cur) == n {
			out = append(out, append([]int{}, cur...))
			return
		}
		for i := 0; i < n; i++ {
			if !used[i] {
				used[i] = true
				rec(append(cur, i), used)
				used[i] = false
			}
		}
	}
	rec(nil, make([]bool, n))
	return out
}

func (w *Worker) rangeOp(st *State, f *Frame, x *ssa.Range) {
	switch v := w.get(st, f, x.X).(type) {
	case StrV:
		rs, ok := v.runeLevel()
		if !ok {
			panic(engineErr("range over opaque string"))
		}
		it := &IterV{}
		for _, r := range rs {
			it.vals = append(it.vals, r)
		}
		f.env[x] = Ptr{id: st.alloc(it)}
	case MapV:
		mo := w.mapObj(st, v)
		n := len(mo.keys)
		// iteration order: a symbolic choice made afresh for every loop (A-maporder)
		var orders [][]int
		if n <= 1 {
			orders = [][]int{make([]int, n)}
			for i := range orders[0] {
				orders[0][i] = i
			}
		} else if w.job.Opts.AllPerms || gCfg.AllPerms {
			orders = permutations(n)
		} else {
			step := 1
			if k := w.job.Opts.MapOrders; k > 0 && k < n {
				step = (n + k - 1) / k
			}
			for r := 0; r < n; r += step {
				o := make([]int, n)
				for i := range o {
					o[i] = (r + i) % n
				}
				orders = append(orders, o)
			}
		}
		mk := func(s *State, ord []int, which int) {
			smo := w.mapObj(s, v)
			it := &IterV{isMap: true, m: v}
			for _, i := range ord {
				it.keys = append(it.keys, smo.keys[i])
				it.vals = append(it.vals, smo.vals[i])
			}
			if len(orders) > 1 {
				s.nondets = append(s.nondets, NondetRec{Kind: "maporder", Val: int64(which)})
			}
			s.top().env[x] = Ptr{id: s.alloc(it)}
		}
		for k := 1; k < len(orders); k++ {
			o := st.clone()
			mk(o, orders[k], k)
			w.push(o)
		}
		mk(st, orders[0], 0)
	default:
		panic(engineErr(fmt.Sprintf("range over %T", v)))
	}
}

func (w *Worker) next(st *State, f *Frame, x *ssa.Next) {
	p := w.get(st, f, x.Iter).(Ptr)
	it := st.heap[p.id].(*IterV)
	if x.IsString {
		if it.pos >= len(it.vals) {
			f.env[x] = Tuple{mkBool(false), mkBV(0, 64), mkBV(0, 32)}
			return
		}
		// byte offsets are only meaningful for concrete prefixes; give the rune index
		f.env[x] = Tuple{mkBool(true), mkBV(uint64(it.pos), 64), it.vals[it.pos]}
		it.pos++
		return
	}
	mt := x.Iter.(*ssa.Range).X.Type().Underlying().(*types.Map)
	for it.pos < len(it.keys) {
		k := it.keys[it.pos]
		it.pos++
		// skip entries deleted since the loop began; read the current value
		mo := w.mapObj(st, it.m)
		for i := range mo.keys {
			c := w.keyEq(mo.keys[i], k)
			if c.isTrue() {
				f.env[x] = Tuple{mkBool(true), k, mo.vals[i]}
				return
			}
		}
	}
	f.env[x] = Tuple{mkBool(false), zero(mt.Key()), zero(mt.Elem())}
}

// ---- calls -------------------------------------------------------------------------------

func (w *Worker) callInstr(st *State, f *Frame, x *ssa.Call) {
	c := x.Call
	if b, ok := c.Value.(*ssa.Builtin); ok {
		w.builtin(st, f, x, b)
		return
	}
	var callee *ssa.Function
	var args []Value
	var bindings []Value
	if c.IsInvoke() {
		recv := w.get(st, f, c.Value).(*Union)
		w.obligation(st, "nil-interface-method-call", x.Pos(), recv.isKind(KNil))
		// fork over the feasible dynamic types
		var ks []int
		for _, k := range recv.kindsSorted() {
			if can, _ := w.branch(st, recv.isKind(k)); can {
				ks = append(ks, k)
			}
		}
		if len(ks) == 0 {
			w.endPath("infeasible")
		}
		for _, k := range ks[1:] {
			o := st.clone()
			o.assume(recv.isKind(k))
			of := o.top()
			of.idx--
			o.instrs--
			// make the receiver concrete in the clone so the re-executed call does not fork again
			of.env[c.Value] = &Union{Tag: mkBV(uint64(k), 8), P: map[int]Value{k: recv.P[k]}}
			w.push(o)
		}
		k := ks[0]
		st.assume(recv.isKind(k))
		t := kinds.typ(k)
		if isSynthErr(t) {
			if c.Method.Name() == "Error" {
				f.env[x] = recv.P[k].(ErrV).Msg
				return
			}
			panic(engineErr("method " + c.Method.Name() + " on error value"))
		}
		callee = w.e.prog.LookupMethod(t, c.Method.Pkg(), c.Method.Name())
		if callee == nil {
			panic(engineErr("no method " + c.Method.Name() + " on " + t.String()))
		}
		args = append(args, recv.P[k])
	} else {
		switch fv := w.get(st, f, c.Value).(type) {
		case FuncV:
			if fv.fn == nil {
				w.obligation(st, "nil-function-call", x.Pos(), mkBool(true))
			}
			callee, bindings = fv.fn, fv.bindings
		default:
			panic(engineErr(fmt.Sprintf("call of %T", fv)))
		}
	}
	for _, a := range c.Args {
		args = append(args, w.get(st, f, a))
	}
	w.invoke(st, f, x, callee, args, bindings)
}

func isSynthErr(t types.Type) bool {
	n, ok := t.(*types.Named)
	return ok && n.Obj().Pkg() == nil && n.Obj().Name() == "verifErr"
}

func (w *Worker) invoke(st *State, f *Frame, x ssa.Value, callee *ssa.Function, args []Value, bindings []Value) {
	if w.intrinsic(st, f, x, callee, args) {
		return
	}
	if len(callee.Blocks) == 0 {
		panic(engineErr("call to external function without model: " + callee.String()))
	}
	if !w.inRepo(callee) {
		panic(engineErr("call into unmodelled library function: " + callee.String()))
	}
	if !w.job.Opts.NoSummary && !gCfg.NoSummary && w.e.isPure(callee) {
		if v, ok := w.summarise(st, callee, args); ok {
			if x != nil {
				f.env[x] = v
			}
			return
		}
	}
	w.job.mu.Lock()
	w.job.Funcs[callee.String()]++
	w.job.mu.Unlock()
	nf := &Frame{fn: callee, blk: callee.Blocks[0], env: make(map[ssa.Value]Value, 32), retTo: x, visits: map[int]int{}, forks: map[ssa.Instruction]int{}}
	for i, p := range callee.Params {
		nf.env[p] = args[i]
	}
	for i, fvv := range callee.FreeVars {
		nf.env[fvv] = bindings[i]
	}
	st.frames = append(st.frames, nf)
	maxDepth := gCfg.MaxCallDepth
	if w.job.Opts.MaxCallDepth > 0 {
		maxDepth = w.job.Opts.MaxCallDepth
	}
	if len(st.frames) > maxDepth {
		w.job.inconclusive("call depth bound exceeded")
		w.endPath("depth")
	}
}

func (w *Worker) inRepo(fn *ssa.Function) bool {
	if fn.Pkg == nil {
		// synthetic wrappers (bound methods, thunks): allow when their origin is in the repo
		if fn.Synthetic != "" {
			return true
		}
		return false
	}
	return strings.HasPrefix(fn.Pkg.Pkg.Path(), gCfg.Module)
}

func (w *Worker) builtin(st *State, f *Frame, x *ssa.Call, b *ssa.Builtin) {
	args := x.Call.Args
	switch b.Name() {
	case "len":
		switch s := w.get(st, f, args[0]).(type) {
		case SliceV:
			f.env[x] = mkBV(uint64(s.n), 64)
		case MapV:
			f.env[x] = mkBV(uint64(len(w.mapObj(st, s).keys)), 64)
		case StrV:
			f.env[x] = strByteLen(s)
		case ArrayV:
			f.env[x] = mkBV(uint64(len(s)), 64)
		default:
			panic(engineErr(fmt.Sprintf("len of %T", s)))
		}
	case "cap":
		s := w.get(st, f, args[0]).(SliceV)
		f.env[x] = mkBV(uint64(s.cap), 64)
	case "append":
		s := w.get(st, f, args[0]).(SliceV)
		elT := x.Type().Underlying().(*types.Slice).Elem()
		var add []Value
		switch t := w.get(st, f, args[1]).(type) {
		case SliceV:
			add = append(add, st.sliceElems(t)...)
		case StrV:
			c, ok := t.concrete()
			if !ok {
				panic(engineErr("append(bytes, symbolic string...)"))
			}
			for i := 0; i < len(c); i++ {
				add = append(add, mkBV(uint64(c[i]), 8))
			}
		}
		f.env[x] = w.appendSlice(st, s, add, elT)
	case "copy":
		dst := w.get(st, f, args[0]).(SliceV)
		src := w.get(st, f, args[1]).(SliceV)
		n := dst.n
		if src.n < n {
			n = src.n
		}
		se := append([]Value{}, st.sliceElems(src)...)
		if n > 0 {
			arr := st.heap[dst.id].(ArrayV)
			for i := 0; i < n; i++ {
				arr[dst.off+i] = se[i]
			}
		}
		f.env[x] = mkBV(uint64(n), 64)
	case "delete":
		w.mapDelete(st, w.get(st, f, args[0]).(MapV), w.get(st, f, args[1]))
	case "clear":
		switch c := w.get(st, f, args[0]).(type) {
		case MapV:
			if c.id != 0 {
				st.heap[c.id] = &MapObj{}
			}
		case SliceV:
			if c.id != 0 {
				arr := append(ArrayV{}, st.heap[c.id].(ArrayV)...)
				z := zero(args[0].Type().Underlying().(*types.Slice).Elem())
				for i := 0; i < c.n; i++ {
					arr[c.off+i] = z
				}
				st.heap[c.id] = arr
			}
		default:
			panic(engineErr("builtin clear on an unexpected value"))
		}
	case "min", "max":
		acc, ok := w.get(st, f, args[0]).(Term)
		if !ok || acc.Sort == SFP || acc.Sort == SBool {
			panic(engineErr("builtin " + b.Name() + " on non-integer operands"))
		}
		bt, _ := args[0].Type().Underlying().(*types.Basic)
		_, signed := intWidth(bt)
		for _, a := range args[1:] {
			t := w.get(st, f, a).(Term)
			lt := "bvult"
			if signed {
				lt = "bvslt"
			}
			c := bvCmp(lt, t, acc)
			if b.Name() == "max" {
				c = bvCmp(lt, acc, t)
			}
			acc = mkIte(c, t, acc)
		}
		f.env[x] = acc
	default:
		panic(engineErr("builtin " + b.Name()))
	}
}

func (w *Worker) appendSlice(st *State, s SliceV, add []Value, elT types.Type) SliceV {
	need := s.n + len(add)
	if len(add) == 0 {
		return s
	}
	var arr ArrayV
	if s.id != 0 {
		arr = st.heap[s.id].(ArrayV)
	}
	if need > s.cap {
		nc := growCap(s.cap, need, w.e.sizes.Sizeof(elT))
		na := make(ArrayV, nc)
		for i := 0; i < s.n; i++ {
			na[i] = arr[s.off+i]
		}
		fillZero(na, s.n, elT)
		s = SliceV{st.alloc(na), 0, s.n, nc}
		arr = na
	}
	for i, v := range add {
		arr[s.off+s.n+i] = v
	}
	s.n = need
	return s
}

var sizeClasses = []uintptr{0, 8, 16, 24, 32, 48, 64, 80, 96, 112, 128, 144, 160, 176, 192, 208, 224, 240, 256, 288, 320, 352, 384, 416, 448, 480, 512, 576, 640, 704, 768, 896, 1024, 1152, 1280, 1408, 1536, 1792, 2048, 2304, 2688, 3072, 3200, 3456, 4096, 4864, 5376, 6144, 6528, 6784, 6912, 8192, 9472, 9728, 10240, 10880, 12288, 13568, 14336, 16384, 18432, 19072, 20480, 21760, 24576, 27264, 28672, 32768}

func roundupsize(n uintptr) uintptr {
	for _, c := range sizeClasses {
		if c >= n {
			return c
		}
	}
	return (n + 8191) &^ 8191
}

// growCap mirrors runtime.growslice of go1.23 (A-growslice).
func growCap(oldCap, newLen int, elemSize int64) int {
	newcap := oldCap
	doublecap := newcap + newcap
	if newLen > doublecap {
		newcap = newLen
	} else {
		const threshold = 256
		if oldCap < threshold {
			newcap = doublecap
		} else {
			for newcap < newLen {
				newcap += (newcap + 3*threshold) >> 2
			}
		}
	}
	if elemSize == 0 {
		return newcap
	}
	mem := roundupsize(uintptr(newcap) * uintptr(elemSize))
	return int(mem / uintptr(elemSize))
}

// ---- package initialisation -------------------------------------------------------------

// gInitForked: packages whose initialiser forked (only the first path was kept).
var gInitForked []string

func (e *Engine) runInits(order []*ssa.Package) error {
	st := newState()
	// globals of the repo's packages
	var gl []*ssa.Global
	for _, p := range order {
		for _, m := range p.Members {
			if g, ok := m.(*ssa.Global); ok {
				gl = append(gl, g)
			}
		}
	}
	sort.Slice(gl, func(i, j int) bool { return gl[i].String() < gl[j].String() })
	for _, g := range gl {
		id := st.alloc(zero(g.Type().(*types.Pointer).Elem()))
		e.globals[g] = id
	}
	job := &Job{Name: "init", Asserts: map[string]*AssertStat{}, Reached: map[string]int{}, violIdx: map[string]*Violation{}, Inconclusive: map[string]int{}, Funcs: map[string]int64{}, PanicSites: map[string]int{}}
	w := &Worker{e: e, sol: newSolver(), job: job, sch: newSched()}
	defer w.sol.close()
	for _, p := range order {
		init := p.Func("init")
		if init == nil {
			continue
		}
		st.frames = []*Frame{{fn: init, blk: init.Blocks[0], env: map[ssa.Value]Value{}, visits: map[int]int{}, forks: map[ssa.Instruction]int{}}}
		w.runPath(st)
		if len(job.Inconclusive) > 0 {
			return fmt.Errorf("package initialiser %s: %v", p.Pkg.Path(), job.Inconclusive)
		}
		if len(w.sch.stack) > 0 {
			// the initialiser ranged over a map (or made another choice): the checks run from
			// the state in which every such range went in insertion order (A-init, reported
			// in the evidence); order dependence inside initialisers is outside the claim
			w.sch.stack = nil
			gInitForked = append(gInitForked, p.Pkg.Path())
		}
	}
	st.frames = nil
	st.instrs = 0
	e.base = st
	return nil
}
