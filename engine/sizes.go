package main

import "go/types"

func sizesFor() types.Sizes { return types.SizesFor("gc", "amd64") }
