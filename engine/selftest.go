package main

import (
	"context"
	"fmt"
	"os"
	"os/exec"
	"path/filepath"
	"strings"
	"time"
)

// Translator validation (DESIGN §2.9): concrete harnesses are executed by the engine from SSA
// and natively; the records they emit (token lists, tree renderings, values, diagnostics)
// must be identical.
func runSelftestJobs(e *Engine, specs []JobSpec) (bool, int, string) {
	var jobs []*Job
	for _, s := range specs {
		j, err := e.mkJob(s)
		if err != nil {
			return false, 0, err.Error()
		}
		jobs = append(jobs, j)
	}
	e.runJobs(jobs, gCfg.Workers)
	total := 0
	for _, j := range jobs {
		if len(j.Inconclusive) > 0 {
			return false, total, fmt.Sprintf("%s: engine run inconclusive: %v", j.Name, j.Inconclusive)
		}
		if j.Paths != 1 {
			return false, total, fmt.Sprintf("%s: concrete run produced %d paths", j.Name, j.Paths)
		}
		b := buildReplayBinary(j)
		if b.err != "" {
			return false, total, b.err
		}
		vec := filepath.Join(filepath.Dir(b.bin), "empty_vector.json")
		os.WriteFile(vec, []byte("[]"), 0o644)
		ctx, cancel := context.WithTimeout(context.Background(), 60*time.Second)
		cmd := exec.CommandContext(ctx, b.bin, "-test.run", "^TestVerifReplay$", "-test.timeout", "50s")
		cmd.Env = append(os.Environ(), "VERIF_VECTOR="+vec)
		if j.Pkg == "main" {
			cmd.Env = append(cmd.Env, "VERIF_BORNO_BIN="+bornoBinary())
		}
		out, _ := cmd.CombinedOutput()
		cancel()
		var native []string
		for _, l := range strings.Split(string(out), "\n") {
			if strings.HasPrefix(l, "VERIF-RECORD ") {
				native = append(native, strings.TrimPrefix(l, "VERIF-RECORD "))
			}
		}
		if !strings.Contains(string(out), "VERIF-DONE") || strings.Contains(string(out), "VERIF-PANIC") {
			return false, total, fmt.Sprintf("%s: native run failed: %.400s", j.Name, out)
		}
		if len(native) != len(j.Records) {
			return false, total, fmt.Sprintf("%s: engine emitted %d records, native %d", j.Name, len(j.Records), len(native))
		}
		for i := range native {
			if native[i] != j.Records[i] {
				return false, total, fmt.Sprintf("%s: record %d differs: engine %q native %q", j.Name, i, j.Records[i], native[i])
			}
			total++
		}
	}
	return true, total, fmt.Sprintf("%d concrete records identical between the SSA executor and the native build (%d harnesses)", total, len(jobs))
}
