#!/bin/sh
# runs the repo's test suite and compares passing tests with the stable baseline
cd /repo && GOPROXY=off GOSUMDB=off GOTOOLCHAIN=local go test -json -vet=off -count=1 ./... 2>/dev/null > /tmp/test.json
python3 - <<'PY'
import json
base=set(json.load(open('/root/.vp/BASELINE.json'))['stable_pass'])
passed=set()
for l in open('/tmp/test.json'):
    try: e=json.loads(l)
    except: continue
    if e.get('Action')=='pass' and e.get('Test'):
        passed.add(e['Package']+'::'+e['Test'])
missing=base-passed
print('baseline',len(base),'passing-of-baseline',len(base&passed),'missing',sorted(missing)[:10])
PY
